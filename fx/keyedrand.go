package fx

import (
	"crypto/rand"
	"crypto/sha256"
	"encoding/hex"
	"fmt"
	"io"
	"sync"

	"github.com/taurusgroup/multi-party-sig/pkg/party"
	"github.com/taurusgroup/multi-party-sig/verif/vk"
)

// KeyedRand replaces crypto/rand.Reader by a reader that serves every party from
// its own deterministic stream and records each party's draw sequence.
type KeyedRand struct {
	mu      sync.Mutex
	seed    uint64
	cur     string
	streams map[string]*vk.Rand
	draws   map[string][]int
	saved   io.Reader
}

func NewKeyedRand(seed uint64) *KeyedRand {
	return &KeyedRand{seed: seed, streams: map[string]*vk.Rand{}, draws: map[string][]int{}}
}

func (k *KeyedRand) Install()            { k.saved = rand.Reader; rand.Reader = k }
func (k *KeyedRand) Uninstall()          { rand.Reader = k.saved }
func (k *KeyedRand) Current(id party.ID) { k.CurrentKey(string(id)) }

// CurrentKey selects the stream by an arbitrary key (twins of one identity use different keys).
func (k *KeyedRand) CurrentKey(key string) { k.mu.Lock(); k.cur = key; k.mu.Unlock() }

// Alias makes stream `key` start as an exact copy of the (fresh) stream `like`.
func (k *KeyedRand) Alias(key, like string) {
	k.mu.Lock()
	defer k.mu.Unlock()
	k.streams[key] = vk.NewRand(k.seed).Fork("party:" + like)
}

// Reseed gives stream `key` fresh, independent randomness from now on.
func (k *KeyedRand) Reseed(key string, salt uint64) {
	k.mu.Lock()
	defer k.mu.Unlock()
	k.streams[key] = vk.NewRand(k.seed ^ salt).Fork("reseeded:" + key)
}

func (k *KeyedRand) Read(p []byte) (int, error) {
	k.mu.Lock()
	defer k.mu.Unlock()
	s := k.streams[k.cur]
	if s == nil {
		s = vk.NewRand(k.seed).Fork("party:" + k.cur)
		k.streams[k.cur] = s
	}
	k.draws[k.cur] = append(k.draws[k.cur], len(p))
	copy(p, s.Bytes(len(p)))
	return len(p), nil
}

// DrawSig summarises every party's sequence of read sizes.
func (k *KeyedRand) DrawSig() map[party.ID]string {
	k.mu.Lock()
	defer k.mu.Unlock()
	out := map[party.ID]string{}
	for key, d := range k.draws {
		id := party.ID(key)
		h := sha256.New()
		for _, n := range d {
			fmt.Fprintf(h, "%d,", n)
		}
		out[id] = fmt.Sprintf("%d:%s", len(d), hex.EncodeToString(h.Sum(nil)[:6]))
	}
	return out
}
