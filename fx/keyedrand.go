package fx

import (
	"crypto/rand"
	"crypto/sha256"
	"encoding/hex"
	"fmt"
	"io"
	"sync"

	"github.com/taurusgroup/multi-party-sig/pkg/party"
	"github.com/taurusgroup/multi-party-sig/verif/vk"
)

// KeyedRand replaces crypto/rand.Reader by a reader that serves every party from
// its own deterministic stream and records each party's draw sequence.
type KeyedRand struct {
	mu      sync.Mutex
	seed    uint64
	cur     party.ID
	streams map[party.ID]*vk.Rand
	draws   map[party.ID][]int
	saved   io.Reader
}

func NewKeyedRand(seed uint64) *KeyedRand {
	return &KeyedRand{seed: seed, streams: map[party.ID]*vk.Rand{}, draws: map[party.ID][]int{}}
}

func (k *KeyedRand) Install()            { k.saved = rand.Reader; rand.Reader = k }
func (k *KeyedRand) Uninstall()          { rand.Reader = k.saved }
func (k *KeyedRand) Current(id party.ID) { k.mu.Lock(); k.cur = id; k.mu.Unlock() }

func (k *KeyedRand) Read(p []byte) (int, error) {
	k.mu.Lock()
	defer k.mu.Unlock()
	s := k.streams[k.cur]
	if s == nil {
		s = vk.NewRand(k.seed).Fork("party:" + string(k.cur))
		k.streams[k.cur] = s
	}
	k.draws[k.cur] = append(k.draws[k.cur], len(p))
	copy(p, s.Bytes(len(p)))
	return len(p), nil
}

// DrawSig summarises every party's sequence of read sizes.
func (k *KeyedRand) DrawSig() map[party.ID]string {
	k.mu.Lock()
	defer k.mu.Unlock()
	out := map[party.ID]string{}
	for id, d := range k.draws {
		h := sha256.New()
		for _, n := range d {
			fmt.Fprintf(h, "%d,", n)
		}
		out[id] = fmt.Sprintf("%d:%s", len(d), hex.EncodeToString(h.Sum(nil)[:6]))
	}
	return out
}
