package fx

import (
	"reflect"
	"unsafe"
)

// DeepCopy copies a value structurally (including unexported fields) WITHOUT going through any of the library's
// encoders: fixtures that clone key material must not depend on the codecs under test (a codec defect would
// otherwise be baked into every fixture consistently and become invisible).
// Pointer aliasing inside the value is preserved; functions and channels are shared.
func DeepCopy[T any](v T) T {
	seen := map[unsafe.Pointer]reflect.Value{}
	out := deepCopyValue(reflect.ValueOf(&v).Elem(), seen)
	return out.Interface().(T)
}

func deepCopyValue(v reflect.Value, seen map[unsafe.Pointer]reflect.Value) reflect.Value {
	if !v.IsValid() {
		return v
	}
	v = readable(v)
	if (v.Kind() == reflect.Struct || v.Kind() == reflect.Array) && !v.CanAddr() && v.CanInterface() {
		// fields of a non-addressable struct cannot be reached when unexported: work on an addressable copy
		t := reflect.New(v.Type()).Elem()
		t.Set(v)
		v = t
	}
	switch v.Kind() {
	case reflect.Ptr:
		if v.IsNil() {
			return reflect.Zero(v.Type())
		}
		key := unsafe.Pointer(v.Pointer())
		if c, ok := seen[key]; ok && c.Type() == v.Type() {
			return c
		}
		n := reflect.New(v.Type().Elem())
		seen[key] = n
		setAny(n.Elem(), deepCopyValue(v.Elem(), seen))
		return n
	case reflect.Interface:
		if v.IsNil() {
			return reflect.Zero(v.Type())
		}
		c := deepCopyValue(v.Elem(), seen)
		n := reflect.New(v.Type()).Elem()
		n.Set(c)
		return n
	case reflect.Struct:
		n := reflect.New(v.Type()).Elem()
		for i := 0; i < v.NumField(); i++ {
			setAny(n.Field(i), deepCopyValue(v.Field(i), seen))
		}
		return n
	case reflect.Slice:
		if v.IsNil() {
			return reflect.Zero(v.Type())
		}
		n := reflect.MakeSlice(v.Type(), v.Len(), v.Len())
		for i := 0; i < v.Len(); i++ {
			setAny(n.Index(i), deepCopyValue(v.Index(i), seen))
		}
		return n
	case reflect.Array:
		n := reflect.New(v.Type()).Elem()
		for i := 0; i < v.Len(); i++ {
			setAny(n.Index(i), deepCopyValue(v.Index(i), seen))
		}
		return n
	case reflect.Map:
		if v.IsNil() {
			return reflect.Zero(v.Type())
		}
		n := reflect.MakeMapWithSize(v.Type(), v.Len())
		it := v.MapRange()
		for it.Next() {
			n.SetMapIndex(deepCopyValue(it.Key(), seen), deepCopyValue(it.Value(), seen))
		}
		return n
	default:
		n := reflect.New(v.Type()).Elem()
		n.Set(v)
		return n
	}
}

// readable returns a view of v whose Interface()/Set restrictions for unexported fields are lifted.
func readable(v reflect.Value) reflect.Value {
	if v.CanInterface() {
		return v
	}
	if v.CanAddr() {
		return reflect.NewAt(v.Type(), unsafe.Pointer(v.UnsafeAddr())).Elem()
	}
	// not addressable (e.g. a map value): copy into an addressable slot first
	c := reflect.New(v.Type()).Elem()
	// reflect refuses Set from an unexported-field value, so go through memory when possible
	switch v.Kind() {
	case reflect.Bool:
		c.SetBool(v.Bool())
	case reflect.Int, reflect.Int8, reflect.Int16, reflect.Int32, reflect.Int64:
		c.SetInt(v.Int())
	case reflect.Uint, reflect.Uint8, reflect.Uint16, reflect.Uint32, reflect.Uint64, reflect.Uintptr:
		c.SetUint(v.Uint())
	case reflect.Float32, reflect.Float64:
		c.SetFloat(v.Float())
	case reflect.String:
		c.SetString(v.String())
	default:
		return v
	}
	return c
}

func setAny(dst, src reflect.Value) {
	if !src.IsValid() {
		return
	}
	if !dst.CanSet() {
		dst = reflect.NewAt(dst.Type(), unsafe.Pointer(dst.UnsafeAddr())).Elem()
	}
	dst.Set(src)
}
