package fx

import (
	"fmt"
	"github.com/taurusgroup/multi-party-sig/pkg/ecdsa"

	"github.com/taurusgroup/multi-party-sig/pkg/party"
	"github.com/taurusgroup/multi-party-sig/pkg/protocol"
	"github.com/taurusgroup/multi-party-sig/protocols/cmp"
	"github.com/taurusgroup/multi-party-sig/protocols/doerner"
	"github.com/taurusgroup/multi-party-sig/protocols/frost"
	"github.com/taurusgroup/multi-party-sig/verif/sim"
	"github.com/taurusgroup/multi-party-sig/verif/vk"
)

// Mat is one epoch of key material of all parties of one protocol.
type Mat interface {
	Proto() string
	IDs() []party.ID
	T() int
	Shares() []Share
	// Snapshot deep-copies through the documented encoders (nil if the protocol's material cannot be copied that way).
	Snapshot() (Mat, error)
	Refresh(r *vk.Rand, opt Opt) (Mat, error)
	Derive(idx uint32) (Mat, error)
	// SignStart returns the start function of party id for signer set S; stale (may be nil) supplies the material of the parties listed in staleIDs.
	Sign(r *vk.Rand, S []party.ID, msg []byte, stale Mat, staleIDs map[party.ID]bool, opt Opt) ([]Outcome, *sim.Net, error)
}

// ---------- FROST ----------

type FrostMat struct {
	Ids  []party.ID
	Th   int
	Cfgs map[party.ID]*frost.Config
}

func NewFrostMat(r *vk.Rand, ids []party.ID, t int, opt Opt) (*FrostMat, error) {
	c, _, err := FrostKeygen(r, ids, t, opt)
	if err != nil {
		return nil, err
	}
	return &FrostMat{ids, t, c}, nil
}
func (m *FrostMat) Proto() string   { return "frost" }
func (m *FrostMat) IDs() []party.ID { return m.Ids }
func (m *FrostMat) T() int          { return m.Th }
func (m *FrostMat) Shares() []Share {
	var s []Share
	for _, id := range m.Ids {
		s = append(s, ShareOfFrost(m.Cfgs[id]))
	}
	return s
}
func (m *FrostMat) Snapshot() (Mat, error) {
	out := &FrostMat{m.Ids, m.Th, map[party.ID]*frost.Config{}}
	var err error
	for id, c := range m.Cfgs {
		if p, fr, txt := vk.Guard(func() { out.Cfgs[id] = RestoreFrost(c) }); p {
			err = fmt.Errorf("encode/restore panicked in %s: %s", fr, txt)
		}
	}
	return out, err
}
func (m *FrostMat) Refresh(r *vk.Rand, opt Opt) (Mat, error) {
	c, _, err := FrostRefresh(r, m.Ids, m.Cfgs, opt)
	if err != nil {
		return nil, err
	}
	return &FrostMat{m.Ids, m.Th, c}, nil
}
func (m *FrostMat) Derive(idx uint32) (Mat, error) {
	out := &FrostMat{m.Ids, m.Th, map[party.ID]*frost.Config{}}
	for id, c := range m.Cfgs {
		d, err := c.DeriveChild(idx)
		if err != nil {
			return nil, err
		}
		out.Cfgs[id] = d
	}
	return out, nil
}
func (m *FrostMat) Sign(r *vk.Rand, S []party.ID, msg []byte, stale Mat, staleIDs map[party.ID]bool, opt Opt) ([]Outcome, *sim.Net, error) {
	n, outs, err := RunMulti(r, S, func(id party.ID) protocol.StartFunc {
		c := m.Cfgs[id]
		if stale != nil && staleIDs[id] {
			c = stale.(*FrostMat).Cfgs[id]
		}
		return frost.Sign(c, S, msg)
	}, opt)
	return outs, n, err
}

// ---------- FROST Taproot ----------

type TaprootMat struct {
	Ids  []party.ID
	Th   int
	Cfgs map[party.ID]*frost.TaprootConfig
}

func NewTaprootMat(r *vk.Rand, ids []party.ID, t int, opt Opt) (*TaprootMat, error) {
	c, _, err := FrostKeygenTaproot(r, ids, t, opt)
	if err != nil {
		return nil, err
	}
	return &TaprootMat{ids, t, c}, nil
}
func (m *TaprootMat) Proto() string   { return "frost-taproot" }
func (m *TaprootMat) IDs() []party.ID { return m.Ids }
func (m *TaprootMat) T() int          { return m.Th }
func (m *TaprootMat) Shares() []Share {
	var s []Share
	for _, id := range m.Ids {
		s = append(s, ShareOfTaproot(m.Cfgs[id]))
	}
	return s
}
func (m *TaprootMat) Snapshot() (Mat, error) {
	out := &TaprootMat{m.Ids, m.Th, map[party.ID]*frost.TaprootConfig{}}
	var err error
	for id, c := range m.Cfgs {
		if p, fr, txt := vk.Guard(func() { out.Cfgs[id] = RestoreTaproot(c) }); p {
			err = fmt.Errorf("encode/restore panicked in %s: %s", fr, txt)
		}
	}
	return out, err
}

// CloneVia copies every party's material through the library's own Clone method (only the Taproot material offers one).
func (m *TaprootMat) CloneVia() (Mat, error) {
	out := &TaprootMat{m.Ids, m.Th, map[party.ID]*frost.TaprootConfig{}}
	for id, c := range m.Cfgs {
		id, c := id, c
		if p, fr, txt := vk.Guard(func() { out.Cfgs[id] = c.Clone() }); p {
			return nil, fmt.Errorf("Clone panicked at %s: %s", fr, txt)
		}
		if out.Cfgs[id] == nil {
			return nil, fmt.Errorf("Clone returned nil for %q", id)
		}
	}
	return out, nil
}

// Cloner is implemented by material whose library type has a Clone method.
type Cloner interface{ CloneVia() (Mat, error) }

func (m *TaprootMat) Refresh(r *vk.Rand, opt Opt) (Mat, error) {
	c, _, err := FrostRefreshTaproot(r, m.Ids, m.Cfgs, opt)
	if err != nil {
		return nil, err
	}
	return &TaprootMat{m.Ids, m.Th, c}, nil
}
func (m *TaprootMat) Derive(idx uint32) (Mat, error) {
	out := &TaprootMat{m.Ids, m.Th, map[party.ID]*frost.TaprootConfig{}}
	for id, c := range m.Cfgs {
		d, err := c.DeriveChild(idx)
		if err != nil {
			return nil, err
		}
		out.Cfgs[id] = d
	}
	return out, nil
}
func (m *TaprootMat) Sign(r *vk.Rand, S []party.ID, msg []byte, stale Mat, staleIDs map[party.ID]bool, opt Opt) ([]Outcome, *sim.Net, error) {
	n, outs, err := RunMulti(r, S, func(id party.ID) protocol.StartFunc {
		c := m.Cfgs[id]
		if stale != nil && staleIDs[id] {
			c = stale.(*TaprootMat).Cfgs[id]
		}
		return frost.SignTaproot(c, S, msg)
	}, opt)
	return outs, n, err
}

// ---------- CMP ----------

type CMPMat struct {
	Ids  []party.ID
	Th   int
	Cfgs map[party.ID]*cmp.Config
	Path string // sign | full | presign+online (how Sign signs)
}

func NewCMPMatDealt(ids []party.ID, t int) *CMPMat {
	return &CMPMat{Ids: ids, Th: t, Cfgs: CMPDeal(ids, t, nil), Path: "sign"}
}
func NewCMPMat(r *vk.Rand, ids []party.ID, t int, opt Opt) (*CMPMat, error) {
	c, _, err := CMPKeygen(r, ids, t, nil, opt)
	if err != nil {
		return nil, err
	}
	return &CMPMat{Ids: ids, Th: t, Cfgs: c, Path: "sign"}, nil
}
func (m *CMPMat) Proto() string   { return "cmp" }
func (m *CMPMat) IDs() []party.ID { return m.Ids }
func (m *CMPMat) T() int          { return m.Th }
func (m *CMPMat) Shares() []Share {
	var s []Share
	for _, id := range m.Ids {
		s = append(s, ShareOfCMP(m.Cfgs[id]))
	}
	return s
}
func (m *CMPMat) Snapshot() (Mat, error) {
	out := &CMPMat{m.Ids, m.Th, map[party.ID]*cmp.Config{}, m.Path}
	var err error
	for id, c := range m.Cfgs {
		if p, fr, txt := vk.Guard(func() { out.Cfgs[id] = RestoreCMP(c) }); p {
			err = fmt.Errorf("encode/restore panicked in %s: %s", fr, txt)
		}
	}
	return out, err
}
func (m *CMPMat) Refresh(r *vk.Rand, opt Opt) (Mat, error) {
	c, _, err := CMPRefresh(r, m.Ids, m.Cfgs, nil, opt)
	if err != nil {
		return nil, err
	}
	return &CMPMat{m.Ids, m.Th, c, m.Path}, nil
}
func (m *CMPMat) Derive(idx uint32) (Mat, error) {
	out := &CMPMat{m.Ids, m.Th, map[party.ID]*cmp.Config{}, m.Path}
	for id, c := range m.Cfgs {
		d, err := c.DeriveBIP32(idx)
		if err != nil {
			return nil, err
		}
		out.Cfgs[id] = d
	}
	return out, nil
}
func (m *CMPMat) Sign(r *vk.Rand, S []party.ID, msg []byte, stale Mat, staleIDs map[party.ID]bool, opt Opt) ([]Outcome, *sim.Net, error) {
	if m.Path == "presign+online" {
		// the presignatures are made by the current epoch; a stale signer joins the online phase with the
		// configuration it still holds
		_, pouts, err := RunMulti(r, S, func(id party.ID) protocol.StartFunc { return cmp.Presign(m.Cfgs[id], S, nil) }, Opt{SessionID: opt.SessionID})
		if err != nil {
			return nil, nil, err
		}
		pre := map[party.ID]*ecdsa.PreSignature{}
		for _, o := range pouts {
			p, ok := o.Value.(*ecdsa.PreSignature)
			if !ok {
				return pouts, nil, nil // the offline phase did not complete: these outcomes are the session's
			}
			pre[o.ID] = p
		}
		n, outs, err := RunMulti(r, S, func(id party.ID) protocol.StartFunc {
			c := m.Cfgs[id]
			if stale != nil && staleIDs[id] {
				c = stale.(*CMPMat).Cfgs[id]
			}
			return cmp.PresignOnline(c, pre[id], msg, nil)
		}, opt)
		return outs, n, err
	}
	n, outs, err := RunMulti(r, S, func(id party.ID) protocol.StartFunc {
		c := m.Cfgs[id]
		if stale != nil && staleIDs[id] {
			c = stale.(*CMPMat).Cfgs[id]
		}
		return cmp.Sign(c, S, msg, nil)
	}, opt)
	return outs, n, err
}

// ---------- Doerner ----------

type DoernerMat struct{ K *DoernerKeys }

func NewDoernerMat(r *vk.Rand, rid, sid party.ID, opt Opt) (*DoernerMat, error) {
	k, _, err := DoernerKeygen(r, rid, sid, opt)
	if err != nil {
		return nil, err
	}
	return &DoernerMat{k}, nil
}
func (m *DoernerMat) Proto() string   { return "doerner" }
func (m *DoernerMat) IDs() []party.ID { return []party.ID{m.K.RID, m.K.SID} }
func (m *DoernerMat) T() int          { return 1 }
func (m *DoernerMat) Shares() []Share { return SharesOfDoerner(m.K) }
func (m *DoernerMat) Snapshot() (Mat, error) {
	// the harness keeps the objects themselves: Doerner configs have no deep-copying encoder for their OT setup (see C15)
	return &DoernerMat{&DoernerKeys{RID: m.K.RID, SID: m.K.SID, R: &doerner.ConfigReceiver{Setup: m.K.R.Setup, SecretShare: Group.NewScalar().Set(m.K.R.SecretShare), Public: m.K.R.Public, ChainKey: append([]byte{}, m.K.R.ChainKey...)},
		S: &doerner.ConfigSender{Setup: m.K.S.Setup, SecretShare: Group.NewScalar().Set(m.K.S.SecretShare), Public: m.K.S.Public, ChainKey: append([]byte{}, m.K.S.ChainKey...)}}}, nil
}
func (m *DoernerMat) Refresh(r *vk.Rand, opt Opt) (Mat, error) {
	k, _, err := DoernerRefresh(r, m.K, opt)
	if err != nil {
		return nil, err
	}
	return &DoernerMat{k}, nil
}
func (m *DoernerMat) Derive(idx uint32) (Mat, error) {
	dr, e1 := m.K.R.DeriveBIP32(idx)
	if e1 != nil {
		return nil, e1
	}
	ds, e2 := m.K.S.DeriveBIP32(idx)
	if e2 != nil {
		return nil, e2
	}
	return &DoernerMat{&DoernerKeys{RID: m.K.RID, SID: m.K.SID, R: dr, S: ds}}, nil
}
func (m *DoernerMat) Sign(r *vk.Rand, S []party.ID, msg []byte, stale Mat, staleIDs map[party.ID]bool, opt Opt) ([]Outcome, *sim.Net, error) {
	R, Sd := m.K.R, m.K.S
	if stale != nil {
		if staleIDs[m.K.RID] {
			R = stale.(*DoernerMat).K.R
		}
		if staleIDs[m.K.SID] {
			Sd = stale.(*DoernerMat).K.S
		}
	}
	n, outs, err := RunTwo(r, m.K.RID, m.K.SID, doerner.SignReceiver(R, m.K.RID, m.K.SID, msg, nil), doerner.SignSender(Sd, m.K.SID, m.K.RID, msg, nil), true, true, opt)
	return outs, n, err
}
