package fx

import (
	"bytes"
	"fmt"
	"math/big"
	"sort"

	"github.com/taurusgroup/multi-party-sig/pkg/math/curve"
	"github.com/taurusgroup/multi-party-sig/pkg/party"
	"github.com/taurusgroup/multi-party-sig/protocols/cmp"
	"github.com/taurusgroup/multi-party-sig/protocols/frost"
	"github.com/taurusgroup/multi-party-sig/verif/ref"
	"github.com/taurusgroup/multi-party-sig/verif/vk"
)

func PtOf(p curve.Point) (ref.Pt, error) {
	if p == nil {
		return ref.Pt{}, fmt.Errorf("nil point")
	}
	if p.IsIdentity() {
		return ref.Infinity(), nil
	}
	b, err := p.MarshalBinary()
	if err != nil {
		return ref.Pt{}, err
	}
	return ref.Decompress(b)
}

func IntOf(s curve.Scalar) *big.Int {
	b, err := s.MarshalBinary()
	if err != nil {
		panic(err)
	}
	return new(big.Int).SetBytes(b)
}

// Share is the protocol-independent view of one party's key material.
type Share struct {
	ID        string
	T         int
	Secret    *big.Int
	GroupKey  ref.Pt            // as reported by this party
	Table     map[string]ref.Pt // per-party public shares as reported by this party
	Aux       map[string][]byte // other per-party public data (encoded), compared byte-wise across parties
	ChainKey  []byte
	XOnly     bool // Taproot: group key must have even Y
	Additive  bool // Doerner: secrets add up, no table
	Malformed string
}

func ShareOfFrost(c *frost.Config) Share {
	s := Share{ID: string(c.ID), T: c.Threshold, Secret: IntOf(c.PrivateShare), Table: map[string]ref.Pt{}, ChainKey: c.ChainKey}
	var err error
	if s.GroupKey, err = PtOf(c.PublicKey); err != nil {
		s.Malformed = "group key: " + err.Error()
	}
	for id, p := range c.VerificationShares.Points {
		if s.Table[string(id)], err = PtOf(p); err != nil {
			s.Malformed = "table: " + err.Error()
		}
	}
	return s
}

func ShareOfTaproot(c *frost.TaprootConfig) Share {
	s := Share{ID: string(c.ID), T: c.Threshold, Secret: IntOf(c.PrivateShare), Table: map[string]ref.Pt{}, ChainKey: c.ChainKey, XOnly: true}
	var err error
	if len(c.PublicKey) != 32 {
		s.Malformed = "x-only key is not 32 bytes"
		return s
	}
	if s.GroupKey, err = ref.LiftX(new(big.Int).SetBytes(c.PublicKey)); err != nil {
		s.Malformed = "group key: " + err.Error()
	}
	for id, p := range c.VerificationShares {
		if s.Table[string(id)], err = PtOf(p); err != nil {
			s.Malformed = "table: " + err.Error()
		}
	}
	return s
}

func ShareOfCMP(c *cmp.Config) Share {
	s := Share{ID: string(c.ID), T: c.Threshold, Secret: IntOf(c.ECDSA), Table: map[string]ref.Pt{}, Aux: map[string][]byte{}, ChainKey: c.ChainKey}
	var err error
	if p, g, _ := vk.Guard(func() { s.GroupKey, err = PtOf(c.PublicPoint()) }); p {
		s.Malformed = "PublicPoint panicked in " + g
		return s
	}
	if err != nil {
		s.Malformed = "group key: " + err.Error()
	}
	for id, p := range c.Public {
		if s.Table[string(id)], err = PtOf(p.ECDSA); err != nil {
			s.Malformed = "table: " + err.Error()
		}
		var buf bytes.Buffer
		eg, _ := p.ElGamal.MarshalBinary()
		buf.Write(eg)
		buf.Write(p.Paillier.N().Bytes())
		buf.WriteByte('|')
		buf.Write(p.Pedersen.N().Bytes())
		buf.WriteByte('|')
		buf.Write(p.Pedersen.S().Bytes())
		buf.WriteByte('|')
		buf.Write(p.Pedersen.T().Bytes())
		s.Aux[string(id)] = buf.Bytes()
	}
	s.Aux["RID"] = c.RID
	// own auxiliary secrets must match own table entries
	if own, ok := c.Public[c.ID]; ok {
		eg, _ := PtOf(own.ElGamal)
		if !ref.MulG(IntOf(c.ElGamal)).Equal(eg) {
			s.Malformed = "own ElGamal secret does not match own public entry"
		}
		n := new(big.Int).Mul(c.Paillier.P().Big(), c.Paillier.Q().Big())
		if n.Cmp(own.Paillier.N().Big()) != 0 {
			s.Malformed = "own Paillier secret does not match own public entry"
		}
	} else {
		s.Malformed = "own entry missing"
	}
	return s
}

// CheckMaterial is the "consistent key material" oracle.  It returns a list of
// (key, detail) failures.  expectKey, when non-nil, is the group key recorded earlier.
// CheckMaterialPartial judges the material of a subset of the parties (the honest finishers of a session with a
// corrupted participant): everything CheckMaterial checks, except that reconstruction from secrets is only attempted
// when at least t+1 of the given shares exist, while reconstruction in the exponent uses the full public table.
func CheckMaterialPartial(r *vk.Rand, shares []Share, expectKey *ref.Pt, subsetLimit int) (fails [][2]string, subsetsChecked int) {
	if len(shares) == 0 {
		return nil, 0
	}
	t := shares[0].T
	if shares[0].Additive || len(shares) >= t+1 {
		return CheckMaterial(r, shares, expectKey, subsetLimit)
	}
	// too few secrets: pad the threshold check by validating tables only
	add := func(k, f string, a ...any) { fails = append(fails, [2]string{k, fmt.Sprintf(f, a...)}) }
	s0 := shares[0]
	for _, s := range shares {
		if s.Malformed != "" {
			add("malformed-material", "party %q: %s", s.ID, s.Malformed)
			return
		}
		if !s.GroupKey.Equal(s0.GroupKey) {
			add("group-key-differs", "parties %q and %q report different group keys", s0.ID, s.ID)
		}
		if !bytes.Equal(s.ChainKey, s0.ChainKey) {
			add("chain-key-differs", "parties %q and %q hold different chain keys", s0.ID, s.ID)
		}
		for id, p := range s0.Table {
			if q, ok := s.Table[id]; !ok || !p.Equal(q) {
				add("table-differs", "public share of %q differs between %q and %q", id, s0.ID, s.ID)
			}
		}
		if e, ok := s.Table[s.ID]; !ok || !ref.MulG(s.Secret).Equal(e) {
			add("own-share-mismatch", "party %q: secret*G differs from its table entry", s.ID)
		}
	}
	if expectKey != nil && !expectKey.Equal(s0.GroupKey) {
		add("group-key-changed", "group key differs from the recorded key")
	}
	if len(fails) > 0 {
		return
	}
	ids := make([]string, 0, len(s0.Table))
	for id := range s0.Table {
		ids = append(ids, id)
	}
	sort.Strings(ids)
	if t+1 <= len(ids) {
		for _, sub := range SampleSubsets(r, len(ids), t+1, subsetLimit) {
			xs := make([]*big.Int, len(sub))
			ps := make([]ref.Pt, len(sub))
			for i, j := range sub {
				xs[i] = ref.IDScalar(ids[j])
				ps[i] = s0.Table[ids[j]]
			}
			subsetsChecked++
			if !ref.InterpolatePoint(xs, ps).Equal(s0.GroupKey) {
				add("subset-table-reconstruction", "table entries %v do not interpolate to the group key", sub)
				return
			}
		}
	}
	return
}

func CheckMaterial(r *vk.Rand, shares []Share, expectKey *ref.Pt, subsetLimit int) (fails [][2]string, subsetsChecked int) {
	add := func(k, f string, a ...any) { fails = append(fails, [2]string{k, fmt.Sprintf(f, a...)}) }
	if len(shares) == 0 {
		add("no-shares", "no shares")
		return
	}
	for _, s := range shares {
		if s.Malformed != "" {
			add("malformed-material", "party %q: %s", s.ID, s.Malformed)
			return
		}
	}
	s0 := shares[0]
	t := s0.T
	for _, s := range shares[1:] {
		if !s.GroupKey.Equal(s0.GroupKey) {
			add("group-key-differs", "parties %q and %q report different group keys", s0.ID, s.ID)
		}
		if s.T != t {
			add("threshold-differs", "parties %q and %q report different thresholds", s0.ID, s.ID)
		}
		if !bytes.Equal(s.ChainKey, s0.ChainKey) {
			add("chain-key-differs", "parties %q and %q hold different chain keys", s0.ID, s.ID)
		}
	}
	if s0.GroupKey.Inf {
		add("group-key-identity", "group key is the identity")
		return
	}
	if expectKey != nil && !expectKey.Equal(s0.GroupKey) {
		add("group-key-changed", "group key %x differs from the recorded key %x", s0.GroupKey.Compress(), expectKey.Compress())
	}
	if s0.XOnly && s0.GroupKey.Y.Bit(0) == 1 {
		add("taproot-odd-y", "taproot group key has odd Y")
	}
	if s0.Additive {
		sum := new(big.Int)
		for _, s := range shares {
			sum.Add(sum, s.Secret)
		}
		subsetsChecked = 1
		if !ref.MulG(sum).Equal(s0.GroupKey) {
			add("additive-shares-do-not-sum-to-key", "sum of the secret shares does not give the group key")
		}
		return
	}
	// tables identical at every party
	for _, s := range shares[1:] {
		if len(s.Table) != len(s0.Table) {
			add("table-size-differs", "tables of %q and %q have different sizes", s0.ID, s.ID)
			continue
		}
		for id, p := range s0.Table {
			q, ok := s.Table[id]
			if !ok || !p.Equal(q) {
				add("table-differs", "public share of %q differs between %q and %q", id, s0.ID, s.ID)
			}
		}
		for id, a := range s0.Aux {
			if !bytes.Equal(a, s.Aux[id]) {
				add("aux-table-differs", "auxiliary public data of %q differs between %q and %q", id, s0.ID, s.ID)
			}
		}
	}
	// own secret matches own entry
	for _, s := range shares {
		e, ok := s.Table[s.ID]
		if !ok {
			add("own-entry-missing", "party %q has no table entry for itself", s.ID)
			continue
		}
		if !ref.MulG(s.Secret).Equal(e) {
			add("own-share-mismatch", "party %q: secret*G differs from its table entry", s.ID)
		}
		if s.Secret.Sign() == 0 {
			add("zero-secret", "party %q has a zero secret share", s.ID)
		}
	}
	if len(fails) > 0 {
		return
	}
	// every (t+1)-subset reconstructs, from secrets and in the exponent
	n := len(shares)
	sort.Slice(shares, func(i, j int) bool { return shares[i].ID < shares[j].ID })
	if t+1 > n || t < 0 {
		add("threshold-invalid", "threshold %d with %d parties", t, n)
		return
	}
	for _, sub := range SampleSubsets(r, n, t+1, subsetLimit) {
		xs := make([]*big.Int, len(sub))
		ys := make([]*big.Int, len(sub))
		ps := make([]ref.Pt, len(sub))
		names := ""
		for i, j := range sub {
			xs[i] = ref.IDScalar(shares[j].ID)
			ys[i] = shares[j].Secret
			ps[i] = s0.Table[shares[j].ID]
			names += fmt.Sprintf("%q ", shares[j].ID)
		}
		subsetsChecked++
		sec := ref.InterpolateSecret(xs, ys)
		if !ref.MulG(sec).Equal(s0.GroupKey) {
			add("subset-secret-reconstruction", "secrets of {%s} (t=%d, n=%d) do not interpolate to the group key", names, t, n)
			return
		}
		if !ref.InterpolatePoint(xs, ps).Equal(s0.GroupKey) {
			add("subset-table-reconstruction", "table entries of {%s} (t=%d, n=%d) do not interpolate to the group key", names, t, n)
			return
		}
	}
	// a t-subset must NOT reconstruct (degree really is t), when t >= 1
	if t >= 1 {
		sub := r.Perm(n)[:t]
		xs := make([]*big.Int, t)
		ys := make([]*big.Int, t)
		for i, j := range sub {
			xs[i] = ref.IDScalar(shares[j].ID)
			ys[i] = shares[j].Secret
		}
		if ref.MulG(ref.InterpolateSecret(xs, ys)).Equal(s0.GroupKey) {
			add("degree-too-low", "only %d shares already interpolate to the group key (threshold %d)", t, t)
		}
	}
	return
}

// IDStrings converts party IDs.
func IDStrings(ids []party.ID) []string {
	out := make([]string, len(ids))
	for i, id := range ids {
		out[i] = string(id)
	}
	return out
}
