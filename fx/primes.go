// Package fx provides fixtures: identifier alphabets, the safe-prime pool for
// hook H1, session runners over the simulator, key-material extraction and the
// shared oracles (consistent key material, correct signature).
package fx

import (
	"bufio"
	"fmt"
	"math/big"
	"os"
	"strings"
	"sync"
	"sync/atomic"

	"github.com/cronokirby/saferith"
	"github.com/taurusgroup/multi-party-sig/pkg/math/sample"
	"github.com/taurusgroup/multi-party-sig/pkg/paillier"
)

var (
	primeOnce sync.Once
	primePool []*big.Int
	primeCtr  uint64
)

// LoadPrimes reads and re-validates the safe-prime pool.
func LoadPrimes() []*big.Int {
	primeOnce.Do(func() {
		f, err := os.Open("/verif/data/safeprimes.txt")
		if err != nil {
			panic("INFRASTRUCTURE: cannot open prime pool: " + err.Error())
		}
		defer f.Close()
		sc := bufio.NewScanner(f)
		for sc.Scan() {
			l := strings.TrimSpace(sc.Text())
			if l == "" {
				continue
			}
			p, ok := new(big.Int).SetString(strings.TrimPrefix(l, "0x"), 16)
			if !ok {
				panic("INFRASTRUCTURE: bad prime line")
			}
			// independent validation: p, (p-1)/2 prime, p = 3 mod 4, 1024 bits
			h := new(big.Int).Rsh(p, 1)
			if p.BitLen() != 1024 || p.Bit(0) != 1 || p.Bit(1) != 1 || !p.ProbablyPrime(8) || !h.ProbablyPrime(8) {
				panic("INFRASTRUCTURE: pool entry is not a 1024-bit safe Blum prime")
			}
			if err := paillier.ValidatePrime(new(saferith.Nat).SetBig(p, 1024)); err != nil {
				panic("INFRASTRUCTURE: library rejects pool prime: " + err.Error())
			}
			primePool = append(primePool, p)
		}
		if len(primePool) < 8 {
			panic("INFRASTRUCTURE: prime pool too small")
		}
	})
	return primePool
}

// NextPrimes returns the next pair of the pool (round robin).
func NextPrimes() (*big.Int, *big.Int) {
	pool := LoadPrimes()
	i := atomic.AddUint64(&primeCtr, 1) - 1
	n := uint64(len(pool) / 2)
	return pool[2*(i%n)], pool[2*(i%n)+1]
}

// SetPrimeOffset makes different children start at different pool positions.
func SetPrimeOffset(o uint64) { atomic.StoreUint64(&primeCtr, o) }

// InstallPrimeHook points hook H1 at the pool.
func InstallPrimeHook() {
	LoadPrimes()
	sample.VerifPrimeSource = func() (*saferith.Nat, *saferith.Nat) {
		p, q := NextPrimes()
		return new(saferith.Nat).SetBig(p, 1024), new(saferith.Nat).SetBig(q, 1024)
	}
}

func RemovePrimeHook() { sample.VerifPrimeSource = nil }

var _ = fmt.Sprintf
