package fx

import (
	"bytes"
	"fmt"
	"math/big"
	"reflect"
	"unsafe"

	"github.com/taurusgroup/multi-party-sig/pkg/ecdsa"
	"github.com/taurusgroup/multi-party-sig/pkg/math/curve"
	"github.com/taurusgroup/multi-party-sig/pkg/party"
	"github.com/taurusgroup/multi-party-sig/pkg/protocol"
	"github.com/taurusgroup/multi-party-sig/pkg/taproot"
	"github.com/taurusgroup/multi-party-sig/protocols/frost"
	"github.com/taurusgroup/multi-party-sig/verif/ref"
	"github.com/taurusgroup/multi-party-sig/verif/sim"
	"github.com/taurusgroup/multi-party-sig/verif/vk"
)

// Outcome of one party.
type Outcome struct {
	ID     party.ID
	State  string // running | done | failed
	Value  interface{}
	Err    error
	Closed bool
}

// Opt configures a session run.
type Opt struct {
	SessionID []byte
	Sched     func(n *sim.Net) int
	Prepare   func(n *sim.Net) // called after handlers are created, before running
	NoRun     bool
	// Current is installed as the simulator's Current hook and also called before each handler is constructed
	// (handlers draw randomness in their constructor).
	Current func(id party.ID)
}

// StartMulti creates MultiHandlers for ids; a start error is returned per party.
func StartMulti(rng *vk.Rand, ids []party.ID, start func(id party.ID) protocol.StartFunc, opt Opt) (*sim.Net, map[party.ID]error) {
	n := sim.New(rng)
	n.Sched = opt.Sched
	n.Current = opt.Current
	errs := map[party.ID]error{}
	for _, id := range ids {
		if opt.Current != nil {
			opt.Current(id)
		}
		h, err := protocol.NewMultiHandler(start(id), opt.SessionID)
		if err != nil {
			errs[id] = err
			continue
		}
		n.Add(id, h, false)
	}
	return n, errs
}

// RunMulti runs a whole multi-party session to quiescence.
func RunMulti(rng *vk.Rand, ids []party.ID, start func(id party.ID) protocol.StartFunc, opt Opt) (*sim.Net, []Outcome, error) {
	n, errs := StartMulti(rng, ids, start, opt)
	if len(errs) > 0 {
		for id, e := range errs {
			return n, nil, fmt.Errorf("start %q: %w", id, e)
		}
	}
	if opt.Prepare != nil {
		opt.Prepare(n)
	}
	if !opt.NoRun {
		n.Run()
	}
	return n, Outcomes(n), nil
}

// RunTwo runs a two-party session.
func RunTwo(rng *vk.Rand, idA, idB party.ID, startA, startB protocol.StartFunc, leaderA, leaderB bool, opt Opt) (*sim.Net, []Outcome, error) {
	n := sim.New(rng)
	n.Sched = opt.Sched
	n.Current = opt.Current
	if opt.Current != nil {
		opt.Current(idA)
	}
	hA, err := protocol.NewTwoPartyHandler(startA, opt.SessionID, leaderA)
	if err != nil {
		return n, nil, fmt.Errorf("start %q: %w", idA, err)
	}
	if opt.Current != nil {
		opt.Current(idB)
	}
	hB, err := protocol.NewTwoPartyHandler(startB, opt.SessionID, leaderB)
	if err != nil {
		return n, nil, fmt.Errorf("start %q: %w", idB, err)
	}
	n.Add(idA, hA, false)
	n.Add(idB, hB, false)
	if opt.Prepare != nil {
		opt.Prepare(n)
	}
	if !opt.NoRun {
		n.Run()
	}
	return n, Outcomes(n), nil
}

func Outcomes(n *sim.Net) []Outcome {
	var out []Outcome
	for _, p := range n.Parties {
		if n.AcceptHang != "" && p.ID == n.AcceptHangID {
			// an Accept call of this party never returned and may hold the handler's lock: "not finished", unasked
			out = append(out, Outcome{ID: p.ID, State: "hung", Err: fmt.Errorf("%s", n.AcceptHang), Closed: p.Closed})
			continue
		}
		v, err := p.H.Result()
		o := Outcome{ID: p.ID, State: sim.State(p.H), Value: v, Err: err, Closed: p.Closed}
		out = append(out, o)
	}
	return out
}

// AllDone reports whether every outcome is "done".
func AllDone(os []Outcome) bool {
	for _, o := range os {
		if o.State != "done" {
			return false
		}
	}
	return len(os) > 0
}

func Describe(os []Outcome) string {
	s := ""
	for _, o := range os {
		s += fmt.Sprintf("[%q %s", o.ID, o.State)
		if o.State == "failed" && o.Err != nil {
			e := o.Err.Error()
			if len(e) > 160 {
				e = e[:160]
			}
			s += ": " + e
		}
		s += "] "
	}
	return s
}

// unexported returns an addressable view of an unexported struct field.
func Unexported(v reflect.Value, name string) (reflect.Value, error) {
	if v.Kind() == reflect.Ptr || v.Kind() == reflect.Interface {
		v = v.Elem()
	}
	if v.Kind() != reflect.Struct {
		return reflect.Value{}, fmt.Errorf("not a struct: %s", v.Kind())
	}
	f := v.FieldByName(name)
	if !f.IsValid() {
		return reflect.Value{}, fmt.Errorf("INFRASTRUCTURE: field %s not found in %s", name, v.Type())
	}
	if !f.CanAddr() {
		// copy into addressable
		c := reflect.New(v.Type()).Elem()
		c.Set(v)
		f = c.FieldByName(name)
	}
	return reflect.NewAt(f.Type(), unsafe.Pointer(f.UnsafeAddr())).Elem(), nil
}

// FrostZ extracts the unexported z of a frost.Signature.
func FrostZ(sig frost.Signature) (curve.Scalar, error) {
	f, err := Unexported(reflect.ValueOf(&sig), "z")
	if err != nil {
		return nil, err
	}
	z, ok := f.Interface().(curve.Scalar)
	if !ok || z == nil {
		return nil, fmt.Errorf("z is nil")
	}
	return z, nil
}

// VerifySig judges a signing result with the independent verifier for its type.
// key is the expected group key (for Taproot its even-Y lift).
func VerifySig(v interface{}, key ref.Pt, msg []byte) (ok bool, kind string, detail string) {
	switch s := v.(type) {
	case *ecdsa.Signature:
		if s == nil || s.R == nil || s.S == nil {
			return false, "ecdsa", "nil signature fields"
		}
		R, err := PtOf(s.R)
		if err != nil {
			return false, "ecdsa", "R: " + err.Error()
		}
		sv := IntOf(s.S)
		if R.Inf {
			return false, "ecdsa", "R is the identity"
		}
		r := new(big.Int).Mod(R.X, ref.Q)
		okP := ref.ECDSAVerifyPoint(key, msg, R, sv)
		okT := ref.ECDSAVerify(key, msg, r, sv)
		if !okP || !okT {
			return false, "ecdsa", fmt.Sprintf("point-equation=%v textbook=%v R=%x s=%x key=%x digest=%x", okP, okT, R.Compress(), sv, key.Compress(), msg)
		}
		return true, "ecdsa", ""
	case frost.Signature:
		R, err := PtOf(s.R)
		if err != nil {
			return false, "schnorr", "R: " + err.Error()
		}
		z, err := FrostZ(s)
		if err != nil {
			return false, "schnorr", err.Error()
		}
		c := ref.FrostChallenge(R, key, msg)
		if !ref.SchnorrVerify(key, R, IntOf(z), c) {
			// Plain FROST has no external standard: the challenge framing is the library's own.  If the library's
			// verifier accepts the signature AND demonstrably still binds the message, the nonce point and the key
			// (three negative controls), the independent reference merely no longer knows the framing: the caller
			// reports that as inconclusive instead of a violation.
			if frostLibraryAccepts(s, key, msg) {
				return true, "schnorr-library-only", "the reference challenge framing no longer matches the library's; library verifier with negative controls used instead"
			}
			return false, "schnorr", fmt.Sprintf("z*G != R + c*Y: R=%x z=%x key=%x msg=%x", R.Compress(), IntOf(z), key.Compress(), msg)
		}
		return true, "schnorr", ""
	case taproot.Signature:
		if !ref.BIP340Verify(key.XBytes(), msg, s) {
			return false, "bip340", fmt.Sprintf("BIP-340 reference rejects sig=%x key=%x msg=%x", []byte(s), key.XBytes(), msg)
		}
		if key.Y.Bit(0) == 1 {
			return false, "bip340", "group key has odd Y"
		}
		return true, "bip340", ""
	default:
		return false, "unknown", fmt.Sprintf("unexpected result type %T", v)
	}
}

func frostLibraryAccepts(s frost.Signature, key ref.Pt, msg []byte) (ok bool) {
	defer func() {
		if recover() != nil {
			ok = false
		}
	}()
	lib := func(p ref.Pt) curve.Point {
		out := curve.Secp256k1{}.NewPoint()
		if err := out.UnmarshalBinary(p.Compress()); err != nil {
			panic(err)
		}
		return out
	}
	pk := lib(key)
	if !s.Verify(pk, msg) {
		return false
	}
	// every part of the message must be bound: first byte, last byte, length
	var others [][]byte
	if len(msg) == 0 {
		others = append(others, []byte{1})
	} else {
		a := append([]byte{}, msg...)
		a[0] ^= 1
		b := append([]byte{}, msg...)
		b[len(b)-1] ^= 1
		others = append(others, a, b, append(append([]byte{}, msg...), 0))
		if len(msg) > 1 {
			others = append(others, msg[:len(msg)-1])
		}
	}
	for _, m2 := range others {
		if s.Verify(pk, m2) {
			return false
		}
	}
	s2 := s
	s2.R = s.R.Add(curve.Secp256k1{}.NewBasePoint())
	otherKey := lib(ref.Add(key, ref.MulG(big.NewInt(1))))
	return !s2.Verify(pk, msg) && !s.Verify(otherKey, msg)
}

// SigBytes gives a canonical byte form of a signature for agreement checks.
func SigBytes(v interface{}) []byte {
	switch s := v.(type) {
	case *ecdsa.Signature:
		if s == nil || s.R == nil || s.S == nil {
			return nil
		}
		a, _ := s.R.MarshalBinary()
		b, _ := s.S.MarshalBinary()
		return append(a, b...)
	case frost.Signature:
		a, _ := s.R.MarshalBinary()
		z, err := FrostZ(s)
		if err != nil {
			return a
		}
		b, _ := z.MarshalBinary()
		return append(a, b...)
	case taproot.Signature:
		return bytes.Clone(s)
	}
	return []byte(fmt.Sprintf("%T", v))
}
