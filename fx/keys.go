package fx

import (
	"crypto/rand"
	"fmt"

	"github.com/fxamacker/cbor/v2"
	"github.com/taurusgroup/multi-party-sig/internal/types"
	"github.com/taurusgroup/multi-party-sig/pkg/math/curve"
	"github.com/taurusgroup/multi-party-sig/pkg/math/polynomial"
	"github.com/taurusgroup/multi-party-sig/pkg/math/sample"
	"github.com/taurusgroup/multi-party-sig/pkg/paillier"
	"github.com/taurusgroup/multi-party-sig/pkg/party"
	"github.com/taurusgroup/multi-party-sig/pkg/pedersen"
	"github.com/taurusgroup/multi-party-sig/pkg/pool"
	"github.com/taurusgroup/multi-party-sig/pkg/protocol"
	"github.com/taurusgroup/multi-party-sig/protocols/cmp"
	"github.com/taurusgroup/multi-party-sig/protocols/cmp/config"
	"github.com/taurusgroup/multi-party-sig/protocols/doerner"
	"github.com/taurusgroup/multi-party-sig/protocols/frost"
	"github.com/taurusgroup/multi-party-sig/verif/sim"
	"github.com/taurusgroup/multi-party-sig/verif/vk"
)

var Group = curve.Secp256k1{}

// FrostKeygen runs the real FROST key generation through handlers.
func FrostKeygen(rng *vk.Rand, ids []party.ID, t int, opt Opt) (map[party.ID]*frost.Config, *sim.Net, error) {
	n, outs, err := RunMulti(rng, ids, func(id party.ID) protocol.StartFunc { return frost.Keygen(Group, id, ids, t) }, opt)
	if err != nil {
		return nil, n, err
	}
	res := map[party.ID]*frost.Config{}
	for _, o := range outs {
		c, ok := o.Value.(*frost.Config)
		if !ok {
			return nil, n, fmt.Errorf("frost keygen did not complete: %s", Describe(outs))
		}
		res[o.ID] = c
	}
	return res, n, nil
}

func FrostKeygenTaproot(rng *vk.Rand, ids []party.ID, t int, opt Opt) (map[party.ID]*frost.TaprootConfig, *sim.Net, error) {
	n, outs, err := RunMulti(rng, ids, func(id party.ID) protocol.StartFunc { return frost.KeygenTaproot(id, ids, t) }, opt)
	if err != nil {
		return nil, n, err
	}
	res := map[party.ID]*frost.TaprootConfig{}
	for _, o := range outs {
		c, ok := o.Value.(*frost.TaprootConfig)
		if !ok {
			return nil, n, fmt.Errorf("frost taproot keygen did not complete: %s", Describe(outs))
		}
		res[o.ID] = c
	}
	return res, n, nil
}

func FrostRefresh(rng *vk.Rand, ids []party.ID, cfgs map[party.ID]*frost.Config, opt Opt) (map[party.ID]*frost.Config, *sim.Net, error) {
	n, outs, err := RunMulti(rng, ids, func(id party.ID) protocol.StartFunc { return frost.Refresh(cfgs[id], ids) }, opt)
	if err != nil {
		return nil, n, err
	}
	res := map[party.ID]*frost.Config{}
	for _, o := range outs {
		c, ok := o.Value.(*frost.Config)
		if !ok {
			return nil, n, fmt.Errorf("frost refresh did not complete: %s", Describe(outs))
		}
		res[o.ID] = c
	}
	return res, n, nil
}

func FrostRefreshTaproot(rng *vk.Rand, ids []party.ID, cfgs map[party.ID]*frost.TaprootConfig, opt Opt) (map[party.ID]*frost.TaprootConfig, *sim.Net, error) {
	n, outs, err := RunMulti(rng, ids, func(id party.ID) protocol.StartFunc { return frost.RefreshTaproot(cfgs[id], ids) }, opt)
	if err != nil {
		return nil, n, err
	}
	res := map[party.ID]*frost.TaprootConfig{}
	for _, o := range outs {
		c, ok := o.Value.(*frost.TaprootConfig)
		if !ok {
			return nil, n, fmt.Errorf("frost taproot refresh did not complete: %s", Describe(outs))
		}
		res[o.ID] = c
	}
	return res, n, nil
}

// CloneFrost / CloneTaproot / CloneCMP copy structurally, independent of the codecs under test.
func CloneFrost(c *frost.Config) *frost.Config                 { return DeepCopy(c) }
func CloneTaproot(c *frost.TaprootConfig) *frost.TaprootConfig { return DeepCopy(c) }
func CloneCMP(c *cmp.Config) *cmp.Config                       { return DeepCopy(c) }

// RestoreFrost / RestoreTaproot / RestoreCMP serialise and restore through the documented encoders (the
// "serialize/restore" operation of histories).
func RestoreFrost(c *frost.Config) *frost.Config {
	b, err := cbor.Marshal(c)
	if err != nil {
		panic(err)
	}
	out := frost.EmptyConfig(Group)
	if err := cbor.Unmarshal(b, out); err != nil {
		panic(err)
	}
	return out
}

func RestoreTaproot(c *frost.TaprootConfig) *frost.TaprootConfig {
	b, err := cbor.Marshal(c)
	if err != nil {
		panic(err)
	}
	out := &frost.TaprootConfig{}
	if err := cbor.Unmarshal(b, out); err != nil {
		panic(err)
	}
	return out
}

func RestoreCMP(c *cmp.Config) *cmp.Config {
	b, err := c.MarshalBinary()
	if err != nil {
		panic(err)
	}
	out := cmp.EmptyConfig(Group)
	if err := out.UnmarshalBinary(b); err != nil {
		panic(err)
	}
	return out
}

// CMPDeal creates CMP key material with a trusted dealer (harness fixture).
// Requires the prime hook to be installed (otherwise it searches primes).
func CMPDeal(ids []party.ID, t int, pl *pool.Pool) map[party.ID]*cmp.Config {
	source := rand.Reader
	configs := make(map[party.ID]*config.Config, len(ids))
	public := make(map[party.ID]*config.Public, len(ids))
	f := polynomial.NewPolynomial(Group, t, sample.Scalar(source, Group))
	rid, _ := types.NewRID(source)
	chainKey, _ := types.NewRID(source)
	for _, pid := range ids {
		paillierSecret := paillier.NewSecretKey(pl)
		s, tt, _ := sample.Pedersen(source, paillierSecret.Phi(), paillierSecret.N())
		pedersenPublic := pedersen.New(paillierSecret.Modulus(), s, tt)
		elGamalSecret := sample.Scalar(source, Group)
		ecdsaSecret := f.Evaluate(pid.Scalar(Group))
		configs[pid] = &config.Config{
			Group: Group, ID: pid, Threshold: t, ECDSA: ecdsaSecret, ElGamal: elGamalSecret,
			Paillier: paillierSecret, RID: rid.Copy(), ChainKey: chainKey.Copy(), Public: public,
		}
		public[pid] = &config.Public{ECDSA: ecdsaSecret.ActOnBase(), ElGamal: elGamalSecret.ActOnBase(), Paillier: paillierSecret.PublicKey, Pedersen: pedersenPublic}
	}
	out := map[party.ID]*cmp.Config{}
	for id, c := range configs {
		out[id] = CloneCMP(c) // no object shared between parties
	}
	return out
}

// CMPKeygen runs the real CMP key generation through handlers.
func CMPKeygen(rng *vk.Rand, ids []party.ID, t int, pl *pool.Pool, opt Opt) (map[party.ID]*cmp.Config, *sim.Net, error) {
	n, outs, err := RunMulti(rng, ids, func(id party.ID) protocol.StartFunc { return cmp.Keygen(Group, id, ids, t, pl) }, opt)
	if err != nil {
		return nil, n, err
	}
	res := map[party.ID]*cmp.Config{}
	for _, o := range outs {
		c, ok := o.Value.(*cmp.Config)
		if !ok {
			return nil, n, fmt.Errorf("cmp keygen did not complete: %s", Describe(outs))
		}
		res[o.ID] = c
	}
	return res, n, nil
}

func CMPRefresh(rng *vk.Rand, ids []party.ID, cfgs map[party.ID]*cmp.Config, pl *pool.Pool, opt Opt) (map[party.ID]*cmp.Config, *sim.Net, error) {
	n, outs, err := RunMulti(rng, ids, func(id party.ID) protocol.StartFunc { return cmp.Refresh(cfgs[id], pl) }, opt)
	if err != nil {
		return nil, n, err
	}
	res := map[party.ID]*cmp.Config{}
	for _, o := range outs {
		c, ok := o.Value.(*cmp.Config)
		if !ok {
			return nil, n, fmt.Errorf("cmp refresh did not complete: %s", Describe(outs))
		}
		res[o.ID] = c
	}
	return res, n, nil
}

// DoernerKeys is the material of one two-party key.
type DoernerKeys struct {
	RID, SID party.ID // receiver, sender identifiers
	R        *doerner.ConfigReceiver
	S        *doerner.ConfigSender
}

func DoernerKeygen(rng *vk.Rand, rid, sid party.ID, opt Opt) (*DoernerKeys, *sim.Net, error) {
	n, outs, err := RunTwo(rng, rid, sid,
		doerner.Keygen(Group, true, rid, sid, nil), doerner.Keygen(Group, false, sid, rid, nil), true, false, opt)
	if err != nil {
		return nil, n, err
	}
	k := &DoernerKeys{RID: rid, SID: sid}
	for _, o := range outs {
		switch c := o.Value.(type) {
		case *doerner.ConfigReceiver:
			k.R = c
		case *doerner.ConfigSender:
			k.S = c
		}
	}
	if k.R == nil || k.S == nil {
		return nil, n, fmt.Errorf("doerner keygen did not complete: %s", Describe(outs))
	}
	return k, n, nil
}

func DoernerRefresh(rng *vk.Rand, k *DoernerKeys, opt Opt) (*DoernerKeys, *sim.Net, error) {
	n, outs, err := RunTwo(rng, k.RID, k.SID,
		doerner.RefreshReceiver(k.R, k.RID, k.SID, nil), doerner.RefreshSender(k.S, k.SID, k.RID, nil), true, false, opt)
	if err != nil {
		return nil, n, err
	}
	nk := &DoernerKeys{RID: k.RID, SID: k.SID}
	for _, o := range outs {
		switch c := o.Value.(type) {
		case *doerner.ConfigReceiver:
			nk.R = c
		case *doerner.ConfigSender:
			nk.S = c
		}
	}
	if nk.R == nil || nk.S == nil {
		return nil, n, fmt.Errorf("doerner refresh did not complete: %s", Describe(outs))
	}
	return nk, n, nil
}

func SharesOfDoerner(k *DoernerKeys) []Share {
	mk := func(id party.ID, sec curve.Scalar, pub curve.Point, ck []byte) Share {
		s := Share{ID: string(id), T: 1, Secret: IntOf(sec), ChainKey: ck, Additive: true}
		var err error
		if s.GroupKey, err = PtOf(pub); err != nil {
			s.Malformed = err.Error()
		}
		return s
	}
	return []Share{mk(k.RID, k.R.SecretShare, k.R.Public, k.R.ChainKey), mk(k.SID, k.S.SecretShare, k.S.Public, k.S.ChainKey)}
}
