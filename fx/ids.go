package fx

import (
	"fmt"
	"sort"

	"github.com/taurusgroup/multi-party-sig/pkg/party"
	"github.com/taurusgroup/multi-party-sig/verif/ref"
	"github.com/taurusgroup/multi-party-sig/verif/vk"
)

// IDs returns n identifiers from one of the alphabets; all have distinct non-zero scalar images.
//
//	0: short ASCII   1: 40-byte (scalar image wraps mod q)   2: multi-byte UTF-8   3: embedded NUL / separators
func IDs(r *vk.Rand, alphabet, n int) []party.ID {
	for {
		ids := make([]party.ID, 0, n)
		seen := map[string]bool{}
		ok := true
		for i := 0; i < n; i++ {
			var s string
			switch alphabet % 4 {
			case 0:
				s = fmt.Sprintf("%c%c", 'a'+byte(r.Intn(26)), 'a'+byte(r.Intn(26)))
				if r.Bool() {
					s = s[:1]
				}
			case 1:
				b := r.Bytes(40)
				for j := range b {
					b[j] = 'A' + b[j]%50
				}
				if i > 0 && r.Intn(3) == 0 { // differ from the first only beyond byte 32
					copy(b, []byte(ids[0])[:34])
				}
				s = string(b)
			case 2:
				runes := []rune("αβγδεζηθικλμνξοπρστυφχψω日本語中文한국어")
				s = string([]rune{runes[r.Intn(len(runes))], runes[r.Intn(len(runes))], runes[r.Intn(len(runes))]})
			case 3:
				// valid UTF-8 only (identifiers travel as CBOR text strings): printable ASCII, NUL and separators
				const pool = "abcXYZ019 ,;:|/()\x00\x00\x1f\x7f"
				b := make([]byte, 3+r.Intn(4))
				for j := range b {
					b[j] = pool[r.Intn(len(pool))]
				}
				b[0] = 'x'
				b[1+r.Intn(len(b)-1)] = 0
				s = string(b)
			}
			sc := ref.IDScalar(s).String()
			if s == "" || seen[s] || seen["#"+sc] || ref.IDScalar(s).Sign() == 0 {
				ok = false
				break
			}
			seen[s] = true
			seen["#"+sc] = true
			ids = append(ids, party.ID(s))
		}
		if ok {
			sort.Slice(ids, func(i, j int) bool { return ids[i] < ids[j] })
			return ids
		}
	}
}

// Subsets enumerates all k-subsets of 0..n-1.
func Subsets(n, k int) [][]int {
	var out [][]int
	var rec func(start int, cur []int)
	rec = func(start int, cur []int) {
		if len(cur) == k {
			out = append(out, append([]int{}, cur...))
			return
		}
		for i := start; i < n; i++ {
			rec(i+1, append(cur, i))
		}
	}
	rec(0, nil)
	return out
}

// SampleSubsets returns all k-subsets when there are at most limit, else `limit` seeded ones.
func SampleSubsets(r *vk.Rand, n, k, limit int) [][]int {
	// count C(n,k)
	c := 1
	for i := 0; i < k; i++ {
		c = c * (n - i) / (i + 1)
		if c > 100000 {
			break
		}
	}
	if c <= limit {
		return Subsets(n, k)
	}
	var out [][]int
	seen := map[string]bool{}
	for len(out) < limit {
		p := r.Perm(n)[:k]
		sort.Ints(p)
		key := fmt.Sprint(p)
		if seen[key] {
			continue
		}
		seen[key] = true
		out = append(out, p)
	}
	return out
}
