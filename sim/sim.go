// Package sim is a deterministic network simulator around the real protocol
// handlers.  One goroutine owns delivery order; messages are serialised between
// parties; every step is logged.
package sim

import (
	"crypto/sha256"
	"encoding/hex"
	"fmt"
	"runtime"
	"runtime/debug"
	"strings"
	"syscall"
	"time"

	"github.com/taurusgroup/multi-party-sig/pkg/party"
	"github.com/taurusgroup/multi-party-sig/pkg/protocol"
	"github.com/taurusgroup/multi-party-sig/verif/vk"
)

// Party is one simulated participant.
type Party struct {
	ID      party.ID
	H       protocol.Handler
	Corrupt bool // excluded from honest oracles
	Closed  bool // Listen() channel observed closed
	Emitted int
	// Mute: messages this party emits are discarded (after OnEmit)
	Mute bool
	ch   <-chan *protocol.Message
}

// Chan returns the party's outgoing channel (fetched once: Listen takes the
// handler mutex, so it must not be called while an Accept is in flight).
func (p *Party) Chan() <-chan *protocol.Message {
	if p.ch == nil {
		p.ch = p.H.Listen()
	}
	return p.ch
}

// Delivery is one (message, recipient) pair waiting in the network.
type Delivery struct {
	Seq     int
	From    party.ID
	To      party.ID
	Round   int
	Bcast   bool
	Bytes   []byte            // wire encoding
	Orig    *protocol.Message // the object the sender's handler emitted (nil for injected)
	Tag     string            // free-form annotation (dup, stale, foreign, mutated...)
	Target  *Party            // explicit target (for twins sharing an ID); nil = lookup by To
	Emitter *Party            // the party object that emitted the message (nil for injected)
}

// Event is one log record.
type Event struct {
	Step      int    `json:"step"`
	Kind      string `json:"kind"` // emit | deliver
	From      string `json:"from"`
	To        string `json:"to"`
	Round     int    `json:"round"`
	Bcast     bool   `json:"bcast"`
	Hash      string `json:"hash"`
	CanAccept bool   `json:"can,omitempty"`
	State     string `json:"state,omitempty"` // recipient state after: running|done|failed
	Tag       string `json:"tag,omitempty"`
}

// Net is the simulator.
type Net struct {
	Parties []*Party
	Pending []*Delivery
	Log     []Event
	Rng     *vk.Rand
	// Sched picks the index of the next pending delivery; nil = FIFO.
	Sched func(n *Net) int
	// OnEmit is called at the drain point with the very object the handler emitted;
	// it may mutate it in place (echo-consistent mutation).  Returning false drops it.
	OnEmit func(n *Net, from *Party, m *protocol.Message) bool
	// OnDeliver may replace a delivery by zero or more deliveries (drop, duplicate, mutate on the wire).
	OnDeliver func(n *Net, d *Delivery) []*Delivery
	// AfterStep is called after every delivery step (injection point).
	AfterStep func(n *Net)
	// Current is called with the party about to run (for party-keyed randomness).
	Current func(id party.ID)
	// CurrentParty, when set, is called instead of Current with the party object (twins share an id).
	CurrentParty func(p *Party)
	// NoSerialize delivers the emitted object itself (only for special experiments).
	Steps    int
	MaxSteps int
	seq      int
	// Views[recipient][round][sender] = hash of the first delivered broadcast payload.
	Views map[party.ID]map[int]map[party.ID]string
	// AcceptHang is set when an Accept call did not return within the watchdog.
	AcceptHang     string
	AcceptHangID   party.ID // the party whose Accept never returned (its handler must not be queried any more)
	AcceptHangDump string
	AcceptHangCPU  int64
	AcceptWatchdog time.Duration
	// Measure, when set, receives the process CPU time and the bytes allocated during every Accept call.
	Measure func(p *Party, m *protocol.Message, cpuNs int64, allocBytes uint64)
	// LogLimit bounds the log (0 = unbounded).
	KeepLog bool
}

func New(rng *vk.Rand) *Net {
	return &Net{Rng: rng, MaxSteps: 200000, Views: map[party.ID]map[int]map[party.ID]string{}, KeepLog: true}
}

func (n *Net) Add(id party.ID, h protocol.Handler, corrupt bool) *Party {
	p := &Party{ID: id, H: h, Corrupt: corrupt}
	n.Parties = append(n.Parties, p)
	return p
}

func (n *Net) Party(id party.ID) *Party {
	for _, p := range n.Parties {
		if p.ID == id {
			return p
		}
	}
	return nil
}

func h8(b []byte) string { s := sha256.Sum256(b); return hex.EncodeToString(s[:6]) }

// State returns running|done|failed for a handler.
func State(h protocol.Handler) string {
	r, err := h.Result()
	if err == nil && r != nil {
		return "done"
	}
	if err != nil && strings.Contains(err.Error(), "protocol: not finished") {
		return "running"
	}
	return "failed"
}

func (n *Net) logf(e Event) {
	if n.KeepLog {
		n.Log = append(n.Log, e)
	}
}

// Enqueue adds a message object emitted by `from` to the network.
func (n *Net) enqueue(from *Party, m *protocol.Message) {
	from.Emitted++
	if n.OnEmit != nil && !n.OnEmit(n, from, m) {
		return
	}
	if from.Mute {
		return
	}
	b, err := m.MarshalBinary()
	if err != nil {
		panic(fmt.Sprintf("sim: cannot marshal emitted message: %v", err))
	}
	n.logf(Event{Step: n.Steps, Kind: "emit", From: string(m.From), To: string(m.To), Round: int(m.RoundNumber), Bcast: m.Broadcast, Hash: h8(m.Data)})
	for _, p := range n.Parties {
		if p == from || p.ID == from.ID {
			continue
		}
		if m.To != "" && m.To != p.ID {
			continue
		}
		n.seq++
		n.Pending = append(n.Pending, &Delivery{Seq: n.seq, From: m.From, To: p.ID, Round: int(m.RoundNumber), Bcast: m.Broadcast, Bytes: b, Orig: m, Target: p, Emitter: from})
	}
}

// Release puts a message that OnEmit held back into the network (OnEmit is not consulted again).
func (n *Net) Release(from *Party, m *protocol.Message) {
	saved := n.OnEmit
	n.OnEmit = nil
	from.Emitted--
	n.enqueue(from, m)
	n.OnEmit = saved
}

// Inject adds a raw delivery.
func (n *Net) Inject(d *Delivery) {
	n.seq++
	d.Seq = n.seq
	n.Pending = append(n.Pending, d)
}

// Drain moves everything currently on p's outgoing channel into the network.
func (n *Net) Drain(p *Party) {
	if p.Closed {
		return
	}
	ch := p.Chan()
	for {
		select {
		case m, ok := <-ch:
			if !ok {
				p.Closed = true
				return
			}
			n.enqueue(p, m)
		default:
			return
		}
	}
}

func (n *Net) DrainAll() {
	for _, p := range n.Parties {
		n.Drain(p)
	}
}

// Decode parses wire bytes into a fresh message object.
func Decode(b []byte) *protocol.Message {
	m := &protocol.Message{}
	_ = m.UnmarshalBinary(b)
	return m
}

// Deliver hands one delivery to its recipient (CanAccept, then Accept with the
// outgoing channel drained concurrently), then drains every party.
func (n *Net) Deliver(d *Delivery) {
	p := d.Target
	if p == nil {
		p = n.Party(d.To)
	}
	if p == nil {
		return
	}
	m := Decode(d.Bytes)
	if n.CurrentParty != nil {
		n.CurrentParty(p)
	} else if n.Current != nil {
		n.Current(p.ID)
	}
	can := p.H.CanAccept(m)
	if d.Bcast && can {
		v := n.Views[p.ID]
		if v == nil {
			v = map[int]map[party.ID]string{}
			n.Views[p.ID] = v
		}
		if v[d.Round] == nil {
			v[d.Round] = map[party.ID]string{}
		}
		if _, ok := v[d.Round][d.From]; !ok {
			v[d.Round][d.From] = h8(m.Data)
		}
	}
	n.AcceptWithDrain(p, m)
	n.Steps++
	if n.AcceptHang != "" {
		// the call never returned: it may hold the handler's lock for ever, so the handler must not be asked anything
		n.logf(Event{Step: n.Steps, Kind: "deliver", From: string(d.From), To: string(p.ID), Round: d.Round, Bcast: d.Bcast, Hash: h8(m.Data), CanAccept: can, State: "ACCEPT-NEVER-RETURNED", Tag: d.Tag})
		return
	}
	n.logf(Event{Step: n.Steps, Kind: "deliver", From: string(d.From), To: string(p.ID), Round: d.Round, Bcast: d.Bcast, Hash: h8(m.Data), CanAccept: can, State: State(p.H), Tag: d.Tag})
	n.DrainAll()
}

// AcceptWithDrain calls Accept in its own goroutine while draining p's channel.
func (n *Net) AcceptWithDrain(p *Party, m *protocol.Message) {
	var ch <-chan *protocol.Message
	if !p.Closed {
		ch = p.Chan()
	}
	done := make(chan struct{})
	var pv any
	var cpu0 int64
	var ms0 runtime.MemStats
	if n.Measure != nil {
		runtime.ReadMemStats(&ms0)
		cpu0 = cpuNanos()
	}
	go func() {
		defer func() {
			if r := recover(); r != nil {
				pv = &PanicInfo{Val: r, Stack: string(debug.Stack())}
			}
			close(done)
		}()
		p.H.Accept(m)
	}()
	wd := n.AcceptWatchdog
	if wd == 0 {
		wd = 10 * time.Minute
	}
	watchdog := time.NewTimer(wd)
	defer watchdog.Stop()
	for {
		select {
		case mm, ok := <-ch:
			if !ok {
				p.Closed = true
				ch = nil
				continue
			}
			n.enqueue(p, mm)
		case <-done:
			if n.Measure != nil {
				var ms1 runtime.MemStats
				runtime.ReadMemStats(&ms1)
				n.Measure(p, m, cpuNanos()-cpu0, ms1.TotalAlloc-ms0.TotalAlloc)
			}
			if pv != nil {
				panic(pv) // re-raise in the simulator goroutine (case-level Guard attributes it)
			}
			return
		case <-watchdog.C:
			buf := make([]byte, 1<<20)
			k := runtime.Stack(buf, true)
			n.AcceptHangDump = string(buf[:k])
			n.AcceptHangCPU = cpuNanos() - cpu0
			n.AcceptHang = fmt.Sprintf("Accept at %s of round-%d message from %s did not return within the wall-clock watchdog", p.ID, m.RoundNumber, m.From)
			n.AcceptHangID = p.ID
			return
		}
	}
}

// Quiescent reports whether nothing is left to deliver.
func (n *Net) Quiescent() bool { return len(n.Pending) == 0 }

// AllTerminal reports whether every non-corrupt party has stopped running.
func (n *Net) AllTerminal() bool {
	for _, p := range n.Parties {
		if p.Corrupt {
			continue
		}
		if State(p.H) == "running" {
			return false
		}
	}
	return true
}

// Step performs one scheduling step; false when nothing is pending.
func (n *Net) Step() bool {
	if len(n.Pending) == 0 {
		return false
	}
	i := 0
	if n.Sched != nil {
		i = n.Sched(n)
		if i < 0 || i >= len(n.Pending) {
			i = 0
		}
	}
	d := n.Pending[i]
	n.Pending = append(n.Pending[:i], n.Pending[i+1:]...)
	ds := []*Delivery{d}
	if n.OnDeliver != nil {
		ds = n.OnDeliver(n, d)
	}
	for _, x := range ds {
		n.Deliver(x)
	}
	if n.AfterStep != nil {
		n.AfterStep(n)
	}
	return true
}

// Run drives the session until quiescence, until every honest party is
// terminal and nothing more is pending for StopEarly, or MaxSteps.
func (n *Net) Run() {
	n.DrainAll()
	for n.Steps < n.MaxSteps && n.AcceptHang == "" {
		if !n.Step() {
			return
		}
	}
}

// RunUntilTerminal is Run but stops as soon as all honest parties are terminal.
func (n *Net) RunUntilTerminal() {
	n.DrainAll()
	for n.Steps < n.MaxSteps && n.AcceptHang == "" {
		if n.AllTerminal() {
			return
		}
		if !n.Step() {
			return
		}
	}
}

// Schedulers.

func SchedFIFO(n *Net) int { return 0 }

func SchedRandom(n *Net) int { return n.Rng.Intn(len(n.Pending)) }

// SchedReverse prefers the latest round, p2p before broadcast, newest first.
func SchedReverse(n *Net) int {
	best := 0
	for i, d := range n.Pending {
		b := n.Pending[best]
		if d.Round > b.Round || (d.Round == b.Round && !d.Bcast && b.Bcast) || (d.Round == b.Round && d.Bcast == b.Bcast && d.Seq > b.Seq) {
			best = i
		}
	}
	return best
}

// SchedStarve delivers to `victim` only when nothing else is pending.
func SchedStarve(victim party.ID) func(n *Net) int {
	return func(n *Net) int {
		var idx []int
		for i, d := range n.Pending {
			if d.To != victim {
				idx = append(idx, i)
			}
		}
		if len(idx) == 0 {
			return n.Rng.Intn(len(n.Pending))
		}
		return idx[n.Rng.Intn(len(idx))]
	}
}

// OrderHash summarises the delivery order (for counting distinct schedules).
func (n *Net) OrderHash() string {
	h := sha256.New()
	for _, e := range n.Log {
		if e.Kind == "deliver" {
			fmt.Fprintf(h, "%s>%s:%d:%v;", e.From, e.To, e.Round, e.Bcast)
		}
	}
	return hex.EncodeToString(h.Sum(nil)[:8])
}

// PanicInfo carries a panic that happened inside Accept, with the stack of the panicking goroutine.
type PanicInfo struct {
	Val   any
	Stack string
}

func (p *PanicInfo) Error() string     { return fmt.Sprint(p.Val) }
func (p *PanicInfo) StackText() string { return p.Stack }

func cpuNanos() int64 {
	var ru syscall.Rusage
	if syscall.Getrusage(syscall.RUSAGE_SELF, &ru) != nil {
		return 0
	}
	return ru.Utime.Nano() + ru.Stime.Nano()
}

// CPUNanos is the CPU time (user+system) consumed by this process so far.
func CPUNanos() int64 { return cpuNanos() }
