package checks

import (
	"bytes"
	"fmt"

	"github.com/taurusgroup/multi-party-sig/pkg/ecdsa"
	"github.com/taurusgroup/multi-party-sig/pkg/party"
	"github.com/taurusgroup/multi-party-sig/pkg/protocol"
	"github.com/taurusgroup/multi-party-sig/protocols/cmp"
	"github.com/taurusgroup/multi-party-sig/protocols/cmp/presign"
	"github.com/taurusgroup/multi-party-sig/protocols/doerner"
	"github.com/taurusgroup/multi-party-sig/protocols/frost"
	"github.com/taurusgroup/multi-party-sig/verif/fx"
	"github.com/taurusgroup/multi-party-sig/verif/ref"
	"github.com/taurusgroup/multi-party-sig/verif/sim"
	"github.com/taurusgroup/multi-party-sig/verif/vk"
)

func init() {
	vk.Register(&vk.Check{
		ID:    "C01",
		Level: "exploration",
		Rule: "signing sessions through real handlers in the simulator over (path, n, t, signer subset, digest length/content class, key-material kind, scheduler); every returned value judged by the independent verifier for its scheme against the group key re-derived from the shares; " +
			"distinct non-trivial = distinct (path, n, t, |S|, prefix-subset?, material kind, digest class) tuples for which at least one party returned a signature that was judged",
		MinDistinct:  30,
		Assumptions:  []string{"reference verifiers in verif/ref (math/big); blake3 shared with the library for the library-defined FROST challenge hash", "CMP material from a harness dealer or real keygen with pool primes (hook H1)"},
		Cases:        c01Cases,
		CaseTimeoutS: 1800,
	})
}

func c01Digest(r *vk.Rand, i int) ([]byte, string) {
	lens := []int{1, 20, 31, 32, 33, 48, 64, 65, 100}
	l := lens[i%len(lens)]
	d := r.Bytes(l)
	class := "random"
	switch (i / len(lens)) % 4 {
	case 1:
		for j := range d {
			d[j] = 0
		}
		class = "zero"
	case 2:
		for j := range d {
			d[j] = 0xff
		}
		class = "ff"
	case 3:
		if l >= 32 {
			copy(d, ref.Q.Bytes())
			d[31] |= 0x0f
			class = "ge-order"
		}
	}
	return d, fmt.Sprintf("len=%d/%s", l, class)
}

func isPrefix(sub []int) bool {
	for i, v := range sub {
		if v != i {
			return false
		}
	}
	return true
}

// listFor gives party `self` its own way of writing down the signer set S (callers are free to list the signers in
// any order, and need not agree on it): mode 0 as given (sorted), 1 reversed, 2 the party itself first.
func listFor(S []party.ID, self party.ID, mode int) []party.ID {
	out := append([]party.ID{}, S...)
	switch mode % 3 {
	case 1:
		for i, j := 0, len(out)-1; i < j; i, j = i+1, j-1 {
			out[i], out[j] = out[j], out[i]
		}
	case 2:
		for i, id := range out {
			if id == self {
				out[0], out[i] = out[i], out[0]
			}
		}
	}
	return out
}

// nonSigners lists the shareholders that are not in the signer set S.
func nonSigners(ids, S []party.ID) []party.ID {
	var out []party.ID
	for _, id := range ids {
		in := false
		for _, s := range S {
			if s == id {
				in = true
			}
		}
		if !in {
			out = append(out, id)
		}
	}
	return out
}

func pickIDs(ids []party.ID, sub []int) []party.ID {
	out := make([]party.ID, len(sub))
	for i, j := range sub {
		out[i] = ids[j]
	}
	return out
}

func c01Cases(env vk.Env) []vk.Case {
	var cs []vk.Case
	for n := 1; n <= 8; n++ {
		for t := 0; t < n; t++ {
			for rep := 0; rep < env.Pick(1, 8); rep++ {
				n, t, rep := n, t, rep
				cs = append(cs, vk.Case{ID: fmt.Sprintf("frost/n%d/t%d/%d", n, t, rep), Run: func(tt *vk.T) { c01Frost(tt, n, t, false, rep, env) }})
				cs = append(cs, vk.Case{ID: fmt.Sprintf("taproot/n%d/t%d/%d", n, t, rep), Run: func(tt *vk.T) { c01Frost(tt, n, t, true, rep, env) }})
			}
		}
	}
	for i := 0; i < env.Pick(6, 60); i++ {
		i := i
		cs = append(cs, vk.Case{ID: fmt.Sprintf("doerner/%d", i), Run: func(tt *vk.T) { c01Doerner(tt, i, env) }})
	}
	for i := 0; i < env.Pick(2, 24); i++ {
		i := i
		for _, p := range []string{"frost", "frost-taproot", "doerner"} {
			p := p
			cs = append(cs, vk.Case{ID: fmt.Sprintf("siblings/%s/%d", p, i), Run: func(tt *vk.T) { c01Siblings(tt, p, i) }})
		}
	}
	for i := 0; i < env.Pick(1, 6); i++ {
		i := i
		cs = append(cs, vk.Case{ID: fmt.Sprintf("siblings/cmp/%d", i), Run: func(tt *vk.T) { c01Siblings(tt, "cmp", i) }})
	}
	// CMP: path x material
	paths := []string{"sign", "presign+online", "full"}
	mats := []string{"fresh", "refreshed", "derived"}
	type cc struct {
		n, t      int
		path, mat string
	}
	var list []cc
	if !env.Thorough() {
		i := 0
		for _, p := range paths {
			for _, m := range mats {
				nt := [][2]int{{3, 1}, {3, 2}, {4, 1}, {2, 1}}[i%4]
				list = append(list, cc{nt[0], nt[1], p, m})
				i++
			}
			// threshold 0: the seeded signer subset is a single party (the whole session runs inside one handler)
			list = append(list, cc{2, 0, p, "fresh"})
		}
	} else {
		for n := 2; n <= 4; n++ {
			for t := 0; t < n; t++ {
				for _, p := range paths {
					for _, m := range mats {
						list = append(list, cc{n, t, p, m})
					}
				}
			}
		}
		list = append(list, cc{5, 2, "sign", "fresh"}, cc{5, 1, "presign+online", "refreshed"}, cc{5, 3, "full", "derived"})
	}
	for i, x := range list {
		i, x := i, x
		cs = append(cs, vk.Case{ID: fmt.Sprintf("cmp/%s/%s/n%d/t%d/%d", x.path, x.mat, x.n, x.t, i), Run: func(tt *vk.T) { c01CMP(tt, x.n, x.t, x.path, x.mat, i, env) }})
	}
	return cs
}

// judge checks one finished signing session: agreement, validity, completion.
func judge(t *vk.T, path string, outs []fx.Outcome, key ref.Pt, msg []byte, tag string, mustComplete bool) bool {
	t.Obs("evaluations", 1)
	t.Obs("sessions|"+path, 1)
	var first []byte
	judged := false
	for _, o := range outs {
		switch o.State {
		case "done":
			ok, kind, detail := fx.VerifySig(o.Value, key, msg)
			if kind == "schnorr-library-only" {
				t.Inconclusive("%s", detail)
			}
			judged = true
			t.Obs("signatures_judged|"+kind, 1)
			if !ok {
				t.Violation(path+"|invalid-signature|"+kind, "%s: party %q returned a signature the independent %s verifier rejects: %s", tag, o.ID, kind, detail)
			}
			b := fx.SigBytes(o.Value)
			if first == nil {
				first = b
			} else if !bytes.Equal(first, b) {
				t.Violation(path+"|signatures-differ", "%s: parties returned different signatures", tag)
			}
		case "failed":
			if mustComplete {
				t.Violation(path+"|honest-session-failed", "%s: party %q failed in an all-honest session: %v", tag, o.ID, o.Err)
			}
		case "running":
			if mustComplete {
				t.Violation(path+"|honest-session-stalled", "%s: party %q unfinished at quiescence in an all-honest session", tag, o.ID)
			}
		}
	}
	return judged
}

func groupKeyFromShares(t *vk.T, path string, shares []fx.Share) (ref.Pt, bool) {
	fails, _ := fx.CheckMaterial(t.Rng, shares, nil, 20)
	if len(fails) > 0 {
		t.Violation(path+"|material|"+fails[0][0], "key material inconsistent before signing: %s", fails[0][1])
		return ref.Pt{}, false
	}
	return shares[0].GroupKey, true
}

func c01Frost(t *vk.T, n, th int, taproot bool, rep int, env vk.Env) {
	r := t.Rng
	ids := fx.IDs(r, (rep+n)%4, n)
	path := "frost"
	if taproot {
		path = "frost-taproot"
	}
	type mat struct {
		kind string
		f    map[party.ID]*frost.Config
		tp   map[party.ID]*frost.TaprootConfig
	}
	var mats []mat
	if taproot {
		c0, _, err := fx.FrostKeygenTaproot(r, ids, th, fx.Opt{Sched: sim.SchedRandom})
		if err != nil {
			t.Violation(path+"|keygen-failed", "%v", err)
			return
		}
		mats = append(mats, mat{kind: "fresh", tp: c0})
		snap := map[party.ID]*frost.TaprootConfig{}
		for id, c := range c0 {
			snap[id] = fx.CloneTaproot(c)
		}
		if c1, _, err := fx.FrostRefreshTaproot(r, ids, snap, fx.Opt{Sched: sim.SchedRandom}); err != nil {
			t.Violation(path+"|refresh-failed", "n=%d t=%d: %v", n, th, err)
		} else {
			mats = append(mats, mat{kind: "refreshed", tp: c1})
			d := map[party.ID]*frost.TaprootConfig{}
			idx := uint32(r.Intn(1 << 31))
			okd := true
			for id, c := range c1 {
				dc, err := c.DeriveChild(idx)
				if err != nil {
					okd = false
					t.Violation(path+"|derive-failed", "DeriveChild(%d): %v", idx, err)
					break
				}
				d[id] = dc
			}
			if okd {
				mats = append(mats, mat{kind: "derived", tp: d})
			}
		}
	} else {
		c0, _, err := fx.FrostKeygen(r, ids, th, fx.Opt{Sched: sim.SchedRandom})
		if err != nil {
			t.Violation(path+"|keygen-failed", "%v", err)
			return
		}
		mats = append(mats, mat{kind: "fresh", f: c0})
		snap := map[party.ID]*frost.Config{}
		for id, c := range c0 {
			snap[id] = fx.CloneFrost(c)
		}
		if c1, _, err := fx.FrostRefresh(r, ids, snap, fx.Opt{Sched: sim.SchedRandom}); err != nil {
			t.Violation(path+"|refresh-failed", "n=%d t=%d: %v", n, th, err)
		} else {
			mats = append(mats, mat{kind: "refreshed", f: c1})
			d := map[party.ID]*frost.Config{}
			idx := uint32(r.Intn(1 << 31))
			okd := true
			for id, c := range c1 {
				dc, err := c.DeriveChild(idx)
				if err != nil {
					okd = false
					t.Violation(path+"|derive-failed", "DeriveChild(%d): %v", idx, err)
					break
				}
				d[id] = dc
			}
			if okd {
				mats = append(mats, mat{kind: "derived", f: d})
			}
		}
	}
	// all signer subsets of size > t
	var subsets [][]int
	for k := th + 1; k <= n; k++ {
		subsets = append(subsets, fx.SampleSubsets(r, n, k, env.Pick(3, 40))...)
	}
	perMat := env.Pick(4, len(subsets))
	di := rep*7 + n + th
	for _, m := range mats {
		var shares []fx.Share
		for _, id := range ids {
			if taproot {
				shares = append(shares, fx.ShareOfTaproot(m.tp[id]))
			} else {
				shares = append(shares, fx.ShareOfFrost(m.f[id]))
			}
		}
		key, ok := groupKeyFromShares(t, path+"|"+m.kind, shares)
		if !ok {
			continue
		}
		order := r.Perm(len(subsets))
		for c := 0; c < perMat && c < len(order); c++ {
			sub := subsets[order[c]]
			S := pickIDs(ids, sub)
			msg, dclass := c01Digest(r, di)
			di++
			sname, sched := pickSched(r, S)
			tag := fmt.Sprintf("%s n=%d t=%d S=%q material=%s digest=%s sched=%s", path, n, th, S, m.kind, dclass, sname)
			var start func(id party.ID) protocol.StartFunc
			mode := c
			tag += fmt.Sprintf(" signer-list-order=%d", mode%3)
			if taproot {
				start = func(id party.ID) protocol.StartFunc { return frost.SignTaproot(m.tp[id], listFor(S, id, mode), msg) }
			} else {
				start = func(id party.ID) protocol.StartFunc { return frost.Sign(m.f[id], listFor(S, id, mode), msg) }
			}
			sopt := fx.Opt{Sched: sched, SessionID: r.Bytes(4)}
			var copies *int
			if c%3 == 1 && len(S) > 1 {
				// every message preceded by a wire copy naming somebody who is not a signer of this session (a
				// shareholder left out of the signer set first, otherwise an unknown name): no effect allowed
				sopt.Prepare, copies = c02Outsider(S, c/3, nonSigners(ids, S)...)
				tag += " +outsider-copies"
			}
			net, outs, err := fx.RunMulti(r, S, start, sopt)
			if copies != nil {
				t.Obs("outsider_copies_delivered", int64(*copies))
			}
			if err != nil {
				t.Violation(path+"|start-failed", "%s: %v", tag, err)
				continue
			}
			if judge(t, path, outs, key, msg, tag, true) {
				t.Distinct("%s|n=%d|t=%d|S=%d|prefix=%v|%s|%s", path, n, th, len(S), isPrefix(sub), m.kind, dclass)
				t.Obs("schedules|"+sname, 1)
				if c == 0 && m.kind == "fresh" {
					t.Sample(map[string]any{"path": path, "n": n, "t": th, "signers": fx.IDStrings(S), "digest": dclass, "scheduler": sname, "order": net.OrderHash()})
				}
			}
		}
	}
}

func c01Doerner(t *vk.T, i int, env vk.Env) {
	r := t.Rng
	ids := fx.IDs(r, i%4, 2)
	rid, sid := ids[0], ids[1]
	if i%2 == 1 {
		rid, sid = sid, rid
	}
	k0, _, err := fx.DoernerKeygen(r, rid, sid, fx.Opt{SessionID: r.Bytes(4)})
	if err != nil {
		t.Violation("doerner|keygen-failed", "%v", err)
		return
	}
	type mat struct {
		kind string
		k    *fx.DoernerKeys
	}
	mats := []mat{{"fresh", k0}}
	if k1, _, err := fx.DoernerRefresh(r, k0, fx.Opt{SessionID: r.Bytes(4)}); err != nil {
		t.Violation("doerner|refresh-failed", "%v", err)
	} else {
		mats = append(mats, mat{"refreshed", k1})
		idx := uint32(r.Intn(1 << 31))
		dr, e1 := k1.R.DeriveBIP32(idx)
		ds, e2 := k1.S.DeriveBIP32(idx)
		if e1 != nil || e2 != nil {
			t.Violation("doerner|derive-failed", "DeriveBIP32(%d): %v %v", idx, e1, e2)
		} else {
			mats = append(mats, mat{"derived", &fx.DoernerKeys{RID: rid, SID: sid, R: dr, S: ds}})
		}
	}
	for mi, m := range mats {
		// the key is the one reported (and for fresh/refreshed re-derived from the shares)
		shares := fx.SharesOfDoerner(m.k)
		key := shares[0].GroupKey
		if m.kind != "derived" {
			var ok bool
			if key, ok = groupKeyFromShares(t, "doerner|"+m.kind, shares); !ok {
				continue
			}
		}
		for c := 0; c < env.Pick(2, 6); c++ {
			msg, dclass := c01Digest(r, i*5+mi*3+c)
			sname, sched := pickSched(r, ids)
			tag := fmt.Sprintf("doerner receiver=%q sender=%q material=%s digest=%s sched=%s", rid, sid, m.kind, dclass, sname)
			_, outs, err := fx.RunTwo(r, rid, sid, doerner.SignReceiver(m.k.R, rid, sid, msg, nil), doerner.SignSender(m.k.S, sid, rid, msg, nil), true, true, fx.Opt{Sched: sched, SessionID: r.Bytes(4)})
			if err != nil {
				t.Violation("doerner|start-failed", "%s: %v", tag, err)
				continue
			}
			if judge(t, "doerner", outs, key, msg, tag, true) {
				t.Distinct("doerner|%s|%s|receiver-first=%v", m.kind, dclass, i%2 == 0)
				if c == 0 && mi == 0 {
					t.Sample(map[string]any{"path": "doerner", "receiver": string(rid), "sender": string(sid), "digest": dclass})
				}
			}
		}
	}
}

func c01CMP(t *vk.T, n, th int, path, mat string, i int, env vk.Env) {
	r := t.Rng
	fx.InstallPrimeHook()
	fx.SetPrimeOffset(uint64(r.Intn(1000)))
	ids := fx.IDs(r, i%4, n)
	var cfgs map[party.ID]*cmp.Config
	if i%3 == 0 {
		var err error
		if cfgs, _, err = fx.CMPKeygen(r, ids, th, nil, fx.Opt{Sched: sim.SchedRandom}); err != nil {
			t.Violation("cmp|keygen-failed", "%v", err)
			return
		}
	} else {
		cfgs = fx.CMPDeal(ids, th, nil)
	}
	if mat == "refreshed" || mat == "derived" {
		c1, _, err := fx.CMPRefresh(r, ids, cfgs, nil, fx.Opt{Sched: sim.SchedRandom})
		if err != nil {
			t.Violation("cmp|refresh-failed", "n=%d t=%d: %v", n, th, err)
			return
		}
		cfgs = c1
	}
	if mat == "derived" {
		idx := uint32(r.Intn(1 << 31))
		d := map[party.ID]*cmp.Config{}
		for id, c := range cfgs {
			dc, err := c.DeriveBIP32(idx)
			if err != nil {
				t.Violation("cmp|derive-failed", "DeriveBIP32(%d): %v", idx, err)
				return
			}
			d[id] = dc
		}
		cfgs = d
	}
	var shares []fx.Share
	for _, id := range ids {
		shares = append(shares, fx.ShareOfCMP(cfgs[id]))
	}
	key, ok := groupKeyFromShares(t, "cmp|"+mat, shares)
	if !ok {
		return
	}
	var subsets [][]int
	for k := th + 1; k <= n; k++ {
		subsets = append(subsets, fx.Subsets(n, k)...)
	}
	count := 1
	if env.Thorough() && n <= 4 {
		count = len(subsets)
		if count > 4 {
			count = 4
		}
	}
	order := r.Perm(len(subsets))
	// prefer a non-prefix subset first
	for a, o := range order {
		if !isPrefix(subsets[o]) {
			order[0], order[a] = order[a], order[0]
			break
		}
	}
	for c := 0; c < count; c++ {
		sub := subsets[order[c]]
		S := pickIDs(ids, sub)
		msg, dclass := c01Digest(r, i*3+c)
		sname, sched := pickSched(r, S)
		tag := fmt.Sprintf("cmp/%s n=%d t=%d S=%q material=%s digest=%s sched=%s", path, n, th, S, mat, dclass, sname)
		var outs []fx.Outcome
		var err error
		switch path {
		case "sign":
			sopt := fx.Opt{Sched: sched, SessionID: r.Bytes(4)}
			if (i+c)%2 == 1 && len(S) > 1 {
				var copies *int
				sopt.Prepare, copies = c02Outsider(S, (i+c)/2, nonSigners(ids, S)...)
				tag += " +outsider-copies"
				defer func() { t.Obs("outsider_copies_delivered", int64(*copies)) }()
			}
			_, outs, err = fx.RunMulti(r, S, func(id party.ID) protocol.StartFunc { return cmp.Sign(cfgs[id], listFor(S, id, i+c), msg, nil) }, sopt)
		case "full":
			_, outs, err = fx.RunMulti(r, S, func(id party.ID) protocol.StartFunc { return presign.StartPresign(cfgs[id], listFor(S, id, i+c), msg, nil) }, fx.Opt{Sched: sched, SessionID: r.Bytes(4)})
		case "presign+online":
			var pouts []fx.Outcome
			_, pouts, err = fx.RunMulti(r, S, func(id party.ID) protocol.StartFunc { return cmp.Presign(cfgs[id], S, nil) }, fx.Opt{Sched: sched, SessionID: r.Bytes(4)})
			if err == nil {
				pre := map[party.ID]*ecdsa.PreSignature{}
				for _, o := range pouts {
					p, ok := o.Value.(*ecdsa.PreSignature)
					if !ok {
						t.Violation("cmp/presign|honest-session-failed", "%s: presign did not complete: %s", tag, fx.Describe(pouts))
						err = fmt.Errorf("presign incomplete")
						break
					}
					pre[o.ID] = p
				}
				if err == nil {
					_, outs, err = fx.RunMulti(r, S, func(id party.ID) protocol.StartFunc { return cmp.PresignOnline(cfgs[id], pre[id], msg, nil) }, fx.Opt{Sched: sched, SessionID: r.Bytes(4)})
				} else {
					continue
				}
			}
		}
		if err != nil {
			t.Violation("cmp/"+path+"|start-failed", "%s: %v", tag, err)
			continue
		}
		if judge(t, "cmp/"+path, outs, key, msg, tag, true) {
			t.Distinct("cmp/%s|n=%d|t=%d|S=%d|prefix=%v|%s|%s", path, n, th, len(S), isPrefix(sub), mat, dclass)
			t.Sample(map[string]any{"path": "cmp/" + path, "n": n, "t": th, "signers": fx.IDStrings(S), "material": mat, "digest": dclass, "scheduler": sname})
		}
	}
}

// c01Siblings: two children are derived from the same parent material; signatures are then requested under the
// first child, the second child and the parent itself, in a seeded order: every session must complete with a
// signature valid under the key its participants report (a derivation describes a new key, it must not disturb
// the material it came from).
func c01Siblings(t *vk.T, proto string, i int) {
	r := t.Rng
	n, th := 3, 1
	if proto == "doerner" {
		n = 2
	}
	ids := fx.IDs(r, i%4, n)
	var parent fx.Mat
	var err error
	switch proto {
	case "frost":
		parent, err = fx.NewFrostMat(r, ids, th, fx.Opt{})
	case "frost-taproot":
		parent, err = fx.NewTaprootMat(r, ids, th, fx.Opt{})
	case "doerner":
		parent, err = fx.NewDoernerMat(r, ids[0], ids[1], fx.Opt{})
	case "cmp":
		fx.InstallPrimeHook()
		fx.SetPrimeOffset(uint64(r.Intn(1000)))
		parent = fx.NewCMPMatDealt(ids, th)
	}
	if err != nil {
		t.Inconclusive("keygen: %v", err)
		return
	}
	i0, i1 := uint32(r.Intn(1<<31)), uint32(r.Intn(1<<31))
	var c0, c1 fx.Mat
	var e0, e1 error
	if p, fr, txt := vk.Guard(func() { c0, e0 = parent.Derive(i0); c1, e1 = parent.Derive(i1) }); p {
		t.Violation(proto+"|derive-panic|"+fr, "%s", txt)
		return
	}
	if e0 != nil || e1 != nil {
		t.Inconclusive("derivation refused: %v %v", e0, e1)
		return
	}
	mats := []struct {
		name string
		m    fx.Mat
	}{{"first-child", c0}, {"second-child", c1}, {"parent", parent}}
	for _, j := range r.Perm(len(mats)) {
		m := mats[j]
		key := m.m.Shares()[0].GroupKey
		c08Sign(t, r, m.m, nil, 0, key, fmt.Sprintf("%s after deriving two children from one parent: signing under the %s", proto, m.name), proto, n, th)
		t.Obs("sibling_sequence_signatures|"+proto, 1)
	}
	t.Distinct("%s|siblings|%d", proto, i%4)
}
