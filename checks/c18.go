package checks

import (
	"fmt"
	"regexp"
	"runtime"
	"strings"
	"sync"
	"sync/atomic"
	"time"

	"github.com/taurusgroup/multi-party-sig/pkg/pool"
	"github.com/taurusgroup/multi-party-sig/verif/vk"
)

func init() {
	vk.Register(&vk.Check{
		ID:    "C18",
		Level: "exploration",
		Rule: "calls of Parallelize/Search on real pools under (a) pairwise gates at the verif yield points (worker point X held until caller point Y has happened, bounded), (b) seeded yield vectors at every hook instance, (c) hook-free stress with instant tasks; " +
			"oracles: exact results, exactly-once evaluation, Search tokens genuine and distinct, return (deadlock decided from a goroutine dump), worker conservation (no pool worker parked in chan send after the call returned); " +
			"distinct non-trivial = distinct observed orders of hook events per (operation, workers, count) + distinct stress configurations whose conservation probe ran",
		MinDistinct:  50,
		Assumptions:  []string{"goroutine states are read from runtime.Stack dumps; a worker parked in `chan send` on a per-call channel after that call returned can never be released (its only receiver is gone)", "yield hooks (tag verif) only delay, they do not change the code path"},
		Cases:        c18Cases,
		CaseTimeoutS: 900,
		Workers:      6,
	})
}

var (
	c18Mu    sync.Mutex
	c18Hook  func(point string, i int)
	c18Once  sync.Once
	goidRe   = regexp.MustCompile(`^goroutine (\d+) `)
	stateRe  = regexp.MustCompile(`^goroutine \d+ \[([^\],]+)`)
)

func c18Install() {
	c18Once.Do(func() {
		pool.VerifYield = func(point string, i int) {
			c18Mu.Lock()
			h := c18Hook
			c18Mu.Unlock()
			if h != nil {
				h(point, i)
			}
		}
	})
}

func setHook(h func(point string, i int)) {
	c18Mu.Lock()
	c18Hook = h
	c18Mu.Unlock()
}

func goid() string {
	var b [64]byte
	n := runtime.Stack(b[:], false)
	m := goidRe.FindSubmatch(b[:n])
	if m == nil {
		return "?"
	}
	return string(m[1])
}

// poolDump classifies the pool goroutines of the process.
type poolDump struct {
	workersRecv, workersSend, workersOther int
	callerRecv                             bool
	raw                                    string
}

func dumpPool() poolDump {
	buf := make([]byte, 1<<20)
	n := runtime.Stack(buf, true)
	var d poolDump
	d.raw = string(buf[:n])
	for _, g := range strings.Split(d.raw, "\n\n") {
		m := stateRe.FindStringSubmatch(g)
		if m == nil {
			continue
		}
		st := m[1]
		isWorker := strings.Contains(g, "pkg/pool.worker(") || strings.Contains(g, "pkg/pool.workerSearch(")
		isCaller := strings.Contains(g, "pkg/pool.(*Pool).Parallelize(") || strings.Contains(g, "pkg/pool.(*Pool).Search(")
		if isWorker {
			switch {
			case strings.HasPrefix(st, "chan send"):
				d.workersSend++
			case strings.HasPrefix(st, "chan receive"):
				d.workersRecv++
			default:
				d.workersOther++
			}
		} else if isCaller && (strings.HasPrefix(st, "chan receive") || strings.HasPrefix(st, "select")) {
			d.callerRecv = true
		}
	}
	return d
}

// callWithWatch runs f; if it does not return, decides deadlock from dumps.
func callWithWatch(t *vk.T, key, desc string, f func()) bool {
	done := make(chan struct{})
	go func() { defer close(done); f() }()
	tick := time.NewTicker(200 * time.Millisecond)
	defer tick.Stop()
	stable := 0
	last := ""
	for i := 0; ; i++ {
		select {
		case <-done:
			return true
		case <-tick.C:
			d := dumpPool()
			sig := fmt.Sprintf("%d/%d/%d/%v", d.workersRecv, d.workersSend, d.workersOther, d.callerRecv)
			if sig == last && d.workersOther == 0 && d.callerRecv {
				stable++
			} else {
				stable = 0
			}
			last = sig
			// every pool goroutine parked, caller parked: nobody can make progress
			if stable >= 5 {
				t.Violation(key+"|deadlock", "%s never returned: caller parked receiving, %d workers parked in chan receive on commands, %d workers parked in chan send on dead channels, none running", desc, d.workersRecv, d.workersSend)
				return false
			}
			if i > 1500 {
				t.Inconclusive("%s: wall-clock watchdog without a provable deadlock (%s)", desc, sig)
				return false
			}
		}
	}
}

// conservation checks after a returned call that no worker is stuck sending.
func conservation(t *vk.T, key, desc string, settle bool) bool {
	if settle {
		time.Sleep(20 * time.Millisecond)
	}
	d := dumpPool()
	t.Obs("conservation_probes", 1)
	if d.workersSend > 0 {
		t.Violation(key+"|lost-worker", "%s: after the call returned %d worker(s) are parked in `chan send` on the finished call's notification channel (receiver gone => lost for ever)", desc, d.workersSend)
		return false
	}
	return true
}

func c18Cases(env vk.Env) []vk.Case {
	var cs []vk.Case
	// (a) pairwise gates
	wPts := []string{"w.beforeCtr", "w.afterCtr", "w.afterSend", "ws.beforeCtr", "ws.afterCtr", "ws.beforeSend", "ws.afterSend"}
	cPts := []string{"c.beforeRecv", "c.afterRecv", "c.return"}
	for _, op := range []string{"parallelize", "search"} {
		for _, w := range []int{1, 2, 3} {
			for _, cnt := range []int{1, 2, 3} {
				for _, wp := range wPts {
					if (op == "parallelize") != strings.HasPrefix(wp, "w.") {
						continue
					}
					for _, cp := range cPts {
						for dir := 0; dir < 2; dir++ {
							op, w, cnt, wp, cp, dir := op, w, cnt, wp, cp, dir
							cs = append(cs, vk.Case{ID: fmt.Sprintf("gate/%s/w%d/c%d/%s/%s/%d", op, w, cnt, wp, cp, dir), Run: func(t *vk.T) { c18Gate(t, op, w, cnt, wp, cp, dir) }})
						}
					}
				}
			}
		}
	}
	// (b) yield vectors
	for i := 0; i < env.Pick(60, 1500); i++ {
		i := i
		cs = append(cs, vk.Case{ID: fmt.Sprintf("yield/%d", i), Run: func(t *vk.T) { c18Yield(t, i) }})
	}
	// (c) stress
	for i := 0; i < env.Pick(12, 120); i++ {
		i := i
		cs = append(cs, vk.Case{ID: fmt.Sprintf("stress/%d", i), Run: func(t *vk.T) { c18Stress(t, i, env.Pick(1500, 15000)) }})
	}
	for i := 0; i < env.Pick(20, 300); i++ {
		i := i
		cs = append(cs, vk.Case{ID: fmt.Sprintf("finite/%d", i), Run: func(t *vk.T) { c18Finite(t, i) }})
	}
	for i := 0; i < env.Pick(12, 120); i++ {
		i := i
		cs = append(cs, vk.Case{ID: fmt.Sprintf("barrier/%d", i), Run: func(t *vk.T) { c18Barrier(t, i) }})
	}
	cs = append(cs, vk.Case{ID: "nilpool", Run: c18Nil})
	cs = append(cs, vk.Case{ID: "worker-counts", Run: c18Counts})
	return cs
}

type token struct{ call, i, n int }

// one call with result oracles. Returns false if the call did not return.
func c18Call(t *vk.T, p *pool.Pool, op string, cnt int, callNo int, key, desc string, dur func(i int)) bool {
	var evals = make([]int32, cnt+1)
	var succ sync.Map
	var seq int32
	var res []interface{}
	ok := callWithWatch(t, key, desc, func() {
		if op == "parallelize" {
			res = p.Parallelize(cnt, func(i int) interface{} {
				if dur != nil {
					dur(i)
				}
				if i >= 0 && i < cnt {
					atomic.AddInt32(&evals[i], 1)
				}
				return token{callNo, i, 0}
			})
		} else {
			res = p.Search(cnt, func() interface{} {
				if dur != nil {
					dur(0)
				}
				n := int(atomic.AddInt32(&seq, 1))
				if n%3 == 0 {
					return nil // unsuccessful candidate
				}
				tk := token{callNo, -1, n}
				succ.Store(n, true)
				return tk
			})
		}
	})
	if !ok {
		return false
	}
	t.Obs("evaluations", 1)
	if len(res) != cnt {
		t.Violation(key+"|result-length", "%s returned %d results, wanted %d", desc, len(res), cnt)
		return true
	}
	seen := map[int]bool{}
	for i, v := range res {
		tk, isTok := v.(token)
		if v == nil || !isTok {
			t.Violation(key+"|nil-result", "%s: result[%d] is %v", desc, i, v)
			continue
		}
		if tk.call != callNo {
			t.Violation(key+"|foreign-result", "%s: result[%d] belongs to call %d", desc, i, tk.call)
		}
		if op == "parallelize" {
			if tk.i != i {
				t.Violation(key+"|wrong-index", "%s: result[%d] is f(%d)", desc, i, tk.i)
			}
		} else {
			if _, ok := succ.Load(tk.n); !ok {
				t.Violation(key+"|phantom-result", "%s: result[%d] was not produced by a successful f call", desc, i)
			}
			if seen[tk.n] {
				t.Violation(key+"|duplicate-result", "%s: result[%d] duplicates another result", desc, i)
			}
			seen[tk.n] = true
		}
	}
	if op == "parallelize" {
		for i := 0; i < cnt; i++ {
			if e := atomic.LoadInt32(&evals[i]); e != 1 {
				t.Violation(key+"|not-exactly-once", "%s: f(%d) evaluated %d times", desc, i, e)
			}
		}
	}
	return true
}

// c18Gate: hold worker point wp until caller point cp has happened (dir 0) or the reverse (dir 1), bounded.
func c18Gate(t *vk.T, op string, w, cnt int, wp, cp string, dir int) {
	c18Install()
	p := pool.NewPool(w)
	defer func() { setHook(nil) }()
	var mu sync.Mutex
	var order []string
	happened := map[string]bool{}
	first, second := cp, wp // second waits for first
	if dir == 1 {
		first, second = wp, cp
	}
	feasible := true
	setHook(func(point string, i int) {
		if point == second {
			// bounded wait for `first`
			for k := 0; k < 3000; k++ {
				mu.Lock()
				h := happened[first]
				mu.Unlock()
				if h {
					break
				}
				if k == 2999 {
					mu.Lock()
					feasible = false
					mu.Unlock()
				}
				runtime.Gosched()
				if k%50 == 49 {
					time.Sleep(100 * time.Microsecond)
				}
			}
		}
		mu.Lock()
		happened[point] = true
		if len(order) < 64 {
			order = append(order, point)
		}
		mu.Unlock()
	})
	key := op
	desc := fmt.Sprintf("%s(count=%d) on %d workers with %s held until %s", op, cnt, w, second, first)
	returned := true
	for call := 0; call < 3 && returned; call++ {
		mu.Lock()
		happened = map[string]bool{}
		mu.Unlock()
		returned = c18Call(t, p, op, cnt, call, key, desc, nil)
		if returned {
			conservation(t, key, desc, true)
		}
	}
	setHook(nil)
	mu.Lock()
	t.Distinct("gate|%s|w=%d|c=%d|%s", op, w, cnt, strings.Join(order, ">"))
	if feasible {
		t.Obs("gates_feasible", 1)
	} else {
		t.Obs("gates_infeasible", 1)
	}
	if w == 2 && cnt == 2 && dir == 0 {
		t.Sample(map[string]any{"kind": "gate", "op": op, "workers": w, "count": cnt, "held": second, "until": first, "feasible": feasible, "observed_order": order})
	}
	mu.Unlock()
	if returned {
		p.TearDown()
	}
}

func c18Yield(t *vk.T, i int) {
	c18Install()
	r := t.Rng
	w := 1 + r.Intn(4)
	cnt := r.Intn(5)
	op := []string{"parallelize", "search"}[r.Intn(2)]
	p := pool.NewPool(w)
	seed := r.U64()
	var mu sync.Mutex
	var order []string
	occ := map[string]int{}
	setHook(func(point string, idx int) {
		mu.Lock()
		k := occ[point]
		occ[point]++
		mu.Unlock()
		h := vk.HashStr(fmt.Sprintf("%d|%s|%d", seed, point, k))
		y := int(h % 4)
		for j := 0; j < y*y*8; j++ {
			runtime.Gosched()
		}
		if h%16 == 0 {
			time.Sleep(50 * time.Microsecond)
		}
		mu.Lock()
		if len(order) < 96 {
			order = append(order, point)
		}
		mu.Unlock()
	})
	defer setHook(nil)
	desc := fmt.Sprintf("%s(count=%d) on %d workers under yield vector %x", op, cnt, w, seed)
	returned := true
	for call := 0; call < 4 && returned; call++ {
		returned = c18Call(t, p, op, cnt, call, op, desc, nil)
		if returned {
			conservation(t, op, desc, call == 3)
		}
	}
	setHook(nil)
	mu.Lock()
	t.Distinct("yield|%s|w=%d|c=%d|%s", op, w, cnt, strings.Join(order, ">"))
	if i < 2 {
		t.Sample(map[string]any{"kind": "yield-vector", "op": op, "workers": w, "count": cnt, "observed_order_prefix": order})
	}
	mu.Unlock()
	if returned {
		p.TearDown()
	}
}

func c18Stress(t *vk.T, i int, calls int) {
	c18Install()
	setHook(nil)
	r := t.Rng
	w := []int{1, 2, 3, 4, 8, 16, 32, 64}[i%8]
	p := pool.NewPool(w)
	key := "stress"
	for c := 0; c < calls; c++ {
		cnt := r.Intn(9)
		if c%97 == 0 {
			cnt = r.Intn(200)
		}
		op := "parallelize"
		if r.Intn(3) == 0 {
			op = "search"
			if cnt > 20 {
				cnt = 20
			}
		}
		var dur func(int)
		if c%211 == 0 {
			dur = func(int) { runtime.Gosched() }
		}
		desc := fmt.Sprintf("stress call #%d %s(count=%d) on %d workers (instant tasks)", c, op, cnt, w)
		if !c18Call(t, p, op, cnt, c, key, desc, dur) {
			return
		}
		if c%50 == 49 {
			if !conservation(t, key, desc, false) {
				return
			}
		}
	}
	if conservation(t, key, fmt.Sprintf("after %d stress calls on %d workers", calls, w), true) {
		// reuse probe: all w workers must be able to run concurrently
		var arrived int32
		ok := callWithWatch(t, key, "reuse probe", func() {
			p.Parallelize(w, func(int) interface{} {
				atomic.AddInt32(&arrived, 1)
				for k := 0; k < 200000 && int(atomic.LoadInt32(&arrived)) < w; k++ {
					runtime.Gosched()
				}
				return 1
			})
		})
		if ok {
			t.Distinct("stress|workers=%d|calls=%d|seedclass=%d", w, calls, i)
			p.TearDown()
		}
	}
	if i < 1 {
		t.Sample(map[string]any{"kind": "stress", "workers": w, "calls": calls})
	}
}

// c18Finite: Search over a haystack with exactly `cnt` needles (and cnt=0): once the results are found no worker may
// keep evaluating f.  Logical bound: after Search returned, each worker can at most finish the call it was in, so more
// than `workers` further invocations prove that workers are still searching (they are not available for the next call).
func c18Finite(t *vk.T, i int) {
	c18Install()
	setHook(nil)
	r := t.Rng
	w := 1 + r.Intn(6)
	p := pool.NewPool(w)
	for round := 0; round < 6; round++ {
		cnt := r.Intn(4)
		if round == 0 {
			cnt = 0
		}
		var calls, succ int64
		var res []interface{}
		desc := fmt.Sprintf("search(count=%d) over a haystack with exactly %d needles on %d workers", cnt, cnt, w)
		if !callWithWatch(t, "search-finite", desc, func() {
			res = p.Search(cnt, func() interface{} {
				atomic.AddInt64(&calls, 1)
				if r := atomic.AddInt64(&succ, 1); r <= int64(cnt) {
					return int(r)
				}
				runtime.Gosched()
				return nil
			})
		}) {
			return
		}
		t.Obs("evaluations", 1)
		for k, v := range res {
			if v == nil {
				t.Violation("search-finite|nil-result", "%s: result[%d] is nil", desc, k)
			}
		}
		at := atomic.LoadInt64(&calls)
		time.Sleep(15 * time.Millisecond)
		after := atomic.LoadInt64(&calls)
		if after-at > int64(w) {
			t.Violation("search-finite|workers-keep-searching-after-return", "%s: f was invoked %d more times after Search had returned (at most %d in-flight calls can finish): the workers are still searching and unavailable", desc, after-at, w)
			return
		}
		conservation(t, "search-finite", desc, false)
		t.Distinct("search-finite|w=%d|count=%d", w, cnt)
		// the pool must be usable right away
		if !c18Call(t, p, "parallelize", 1+r.Intn(4), round, "search-finite", "parallelize after "+desc, nil) {
			return
		}
	}
	p.TearDown()
	if i == 0 {
		t.Sample(map[string]any{"kind": "finite haystack search", "workers": w})
	}
}

func c18Nil(t *vk.T) {
	var p *pool.Pool
	me := goid()
	for cnt := 0; cnt < 6; cnt++ {
		same := true
		res := p.Parallelize(cnt, func(i int) interface{} {
			if goid() != me {
				same = false
			}
			return i * i
		})
		t.Obs("evaluations", 1)
		if len(res) != cnt {
			t.Violation("nilpool|result-length", "nil pool Parallelize(%d) returned %d", cnt, len(res))
		}
		for i, v := range res {
			if v != i*i {
				t.Violation("nilpool|wrong-result", "nil pool result[%d]=%v", i, v)
			}
		}
		n := 0
		res = p.Search(cnt, func() interface{} {
			if goid() != me {
				same = false
			}
			n++
			if n%2 == 0 {
				return nil
			}
			return n
		})
		if len(res) != cnt {
			t.Violation("nilpool|search-result-length", "nil pool Search(%d) returned %d results", cnt, len(res))
		}
		for i, v := range res {
			if v == nil {
				t.Violation("nilpool|nil-result", "nil pool Search result[%d] nil", i)
			}
		}
		if !same {
			t.Violation("nilpool|other-goroutine", "nil pool ran f on another goroutine")
		}
		t.Distinct("nilpool|count=%d", cnt)
	}
	// a search for nothing ends at once, whatever f does (here: f never succeeds)
	calls := int32(0)
	var res0 []interface{}
	if callWithWatch(t, "nilpool|search-0", "nil pool Search(0) with a hopeless f", func() {
		res0 = p.Search(0, func() interface{} {
			if atomic.AddInt32(&calls, 1) > 2000000 {
				runtime.Goexit() // the watchdog below has decided long ago; do not spin for ever
			}
			return nil
		})
	}) {
		if len(res0) != 0 {
			t.Violation("nilpool|search-result-length", "nil pool Search(0) returned %d results", len(res0))
		}
	} else if atomic.LoadInt32(&calls) > 1000 {
		t.Violation("nilpool|search-0-never-returns", "nil pool Search(0) keeps calling f (%d calls) instead of returning the empty result", atomic.LoadInt32(&calls))
	}
	t.Obs("evaluations", 1)
	t.Sample(map[string]any{"kind": "nil pool", "counts": "0..5"})
}

// c18Counts: every worker count a caller may pass (documented: count <= 0 means one worker per CPU) gives a pool
// that returns exact results for task counts from 0 upward and can be used again.
func c18Counts(t *vk.T) {
	c18Install()
	setHook(nil)
	callNo := 0
	for _, wc := range []int{3, 1, 0, -1, -2, -16} {
		var p *pool.Pool
		if pnk, fr, txt := vk.Guard(func() { p = pool.NewPool(wc) }); pnk {
			t.Violation("counts|newpool-panic|"+fr, "NewPool(%d) panicked: %s", wc, txt)
			continue
		}
		alive := true
		for round := 0; round < 2 && alive; round++ {
			for _, cnt := range []int{0, 1, 2, 7} {
				for _, op := range []string{"parallelize", "search"} {
					callNo++
					desc := fmt.Sprintf("%s(count=%d) on NewPool(%d), use %d", op, cnt, wc, round)
					if !c18Call(t, p, op, cnt, callNo, "counts|"+op, desc, nil) {
						alive = false // did not return: nothing more can be asked of this pool
						break
					}
					t.Distinct("counts|workers=%d|%s|tasks=%d", wc, op, cnt)
				}
				if !alive {
					break
				}
			}
		}
		if alive {
			conservation(t, "counts", fmt.Sprintf("NewPool(%d) after all calls", wc), true)
			p.TearDown()
		}
	}
	t.Sample(map[string]any{"kind": "worker counts", "counts": []int{3, 1, 0, -1, -2, -16}, "tasks": []int{0, 1, 2, 7}})
}

// c18Barrier: workers that reach the slot claim of a Search are held until a second worker is at the same point
// (bounded wait), then both are released together: "two workers succeed at the same moment", made likely instead
// of left to chance.  The hook only delays.
func c18Barrier(t *vk.T, i int) {
	r := t.Rng
	w := 2 + r.Intn(3)
	c18Install()
	p := pool.NewPool(w)
	var arrived int32
	paired := int64(0)
	setHook(func(point string, _ int) {
		if point != "ws.beforeCtr" {
			return
		}
		n := atomic.AddInt32(&arrived, 1)
		if n%2 == 0 {
			atomic.AddInt64(&paired, 1)
			return // second of a pair: go on at once
		}
		// first of a pair: spin (no parking, so that both continue within nanoseconds) until the partner arrives
		for k := 0; k < 400000 && atomic.LoadInt32(&arrived) == n; k++ {
		}
	})
	defer setHook(nil)
	for call := 0; call < 150; call++ {
		cnt := 2 + r.Intn(3)
		desc := fmt.Sprintf("search(count=%d) on %d workers, slot claims released in pairs, call %d", cnt, w, call)
		if !c18Call(t, p, "search", cnt, call, "barrier|search", desc, nil) {
			return
		}
		if !conservation(t, "barrier|search", desc, false) {
			return
		}
	}
	t.Obs("paired_slot_claims", atomic.LoadInt64(&paired))
	t.Distinct("barrier|workers=%d", w)
	setHook(nil)
	p.TearDown()
	if i == 0 {
		t.Sample(map[string]any{"kind": "paired slot claims", "workers": w, "calls": 150, "pairs_released_together": atomic.LoadInt64(&paired)})
	}
}
