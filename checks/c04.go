package checks

import (
	"errors"
	"fmt"
	"math/big"
	"reflect"
	"strings"

	"github.com/cronokirby/saferith"
	"github.com/taurusgroup/multi-party-sig/pkg/ecdsa"
	"github.com/taurusgroup/multi-party-sig/internal/round"
	"github.com/taurusgroup/multi-party-sig/internal/types"
	"github.com/taurusgroup/multi-party-sig/pkg/hash"
	"github.com/taurusgroup/multi-party-sig/pkg/math/curve"
	"github.com/taurusgroup/multi-party-sig/pkg/math/polynomial"
	"github.com/taurusgroup/multi-party-sig/pkg/party"
	"github.com/taurusgroup/multi-party-sig/pkg/protocol"
	"github.com/taurusgroup/multi-party-sig/protocols/cmp"
	"github.com/taurusgroup/multi-party-sig/protocols/cmp/presign"
	"github.com/taurusgroup/multi-party-sig/protocols/frost"
	"github.com/taurusgroup/multi-party-sig/verif/adv"
	"github.com/taurusgroup/multi-party-sig/verif/fx"
	"github.com/taurusgroup/multi-party-sig/verif/ref"
	"github.com/taurusgroup/multi-party-sig/verif/sim"
	"github.com/taurusgroup/multi-party-sig/verif/vk"
)

func init() {
	vk.Register(&vk.Check{
		ID:    "C04",
		Level: "fault_enumeration",
		Rule: "(1) the C03 fault catalogue (every field of every message of one corrupted participant x typed alterations x echo-consistent / wire-only, plus whole-message substitutions), judged by the culprit oracle: for an error an honest party detected itself every named culprit is the corrupted participant, a relayed abort names exactly the sender of a notice that was delivered to it, no honest party names itself, and a decode/verify failure names the message's sender; (2) state-level deviations of a CMP presigner that keep every individual proof valid (wrong chi via the ECDSA share, wrong gamma, delta share off by one with an echo-consistent broadcast, sigma share off by one online), in the offline, full and online variants, every cheater position, abort notices suppressed so that every honest signer must reach its own verdict: each must end with culprits = [cheater]; (3) a CMP key generation / refresh in which the cheater shares with a polynomial of degree t-1 (all commitments, proofs and shares consistent): whoever refuses names the cheater and nobody names an honest party or itself; " +
			"distinct non-trivial = distinct (protocol, position, fault class) runs with at least one culprit list judged, plus distinct (variant, deviation, position, n) identifiable-abort runs",
		MinDistinct:  100,
		Assumptions:  []string{"ground truth = the simulator knows which participant deviates and which abort notices were delivered", "state-level deviations alter the cheater's round object by reflection between deliveries"},
		Cases:        c04Cases,
		CaseTimeoutS: 3000,
	})
}

func c04Cases(env vk.Env) []vk.Case {
	cs := campaignCases("C04", env)
	// every point-to-point message of the corrupted party once with an empty recipient header (the shape that makes
	// round code index its tables with ""), complete, for every protocol: whoever is named must be the sender
	for _, p := range append(append([]string{}, cheapProtos...), cmpProtos...) {
		for pos := 0; pos < env.Pick(1, 3); pos++ {
			p, pos := p, pos
			cs = append(cs, vk.Case{ID: fmt.Sprintf("empty-recipient/%s/pos%d", p, pos), Run: func(t *vk.T) {
				campaignOnly = "/empty-recipient-header/"
				defer func() { campaignOnly, campaignSched = "", -1 }()
				for _, sc := range []int{2, 0, 1} { // latest-first (the message is queued before its round), in order, random
					campaignSched = sc
					runCampaign(t, "C04", p, 3, pos+1, 0, 0, 1)
				}
			}})
		}
	}
	devs := []string{"chi-via-x-during-round3", "gamma-during-round3", "delta-share-off-by-one", "chi-via-x-from-round3"}
	for _, variant := range []string{"offline", "full"} {
		for di, d := range devs {
			for pos := 0; pos < 3; pos++ {
				if !env.Thorough() && (pos+di)%3 != 0 {
					continue
				}
				variant, d, pos := variant, d, pos
				cs = append(cs, vk.Case{ID: fmt.Sprintf("identifiable-abort/%s/%s/pos%d/n3", variant, d, pos), Run: func(t *vk.T) { c04State(t, variant, d, pos, 3) }})
			}
			if env.Thorough() {
				variant, d := variant, d
				cs = append(cs, vk.Case{ID: fmt.Sprintf("identifiable-abort/%s/%s/pos1/n4", variant, d), Run: func(t *vk.T) { c04State(t, variant, d, 1, 4) }})
			}
		}
	}
	for pos := 0; pos < env.Pick(2, 6); pos++ {
		pos := pos
		cs = append(cs, vk.Case{ID: fmt.Sprintf("low-degree/cmp-keygen/pos%d", pos), Run: func(t *vk.T) { c04Degree(t, "cmp-keygen", pos, 3+pos/3, 2, -1) }})
		cs = append(cs, vk.Case{ID: fmt.Sprintf("low-degree/cmp-refresh/pos%d", pos), Run: func(t *vk.T) { c04Degree(t, "cmp-refresh", pos, 3+pos/3, 2, -1) }})
		cs = append(cs, vk.Case{ID: fmt.Sprintf("high-degree/cmp-keygen/pos%d", pos), Run: func(t *vk.T) { c04Degree(t, "cmp-keygen", pos, 3+pos/3, 1, +1) }})
	}
	for pos := 0; pos < env.Pick(4, 12); pos++ {
		pos := pos
		for _, p := range []string{"frost-keygen", "taproot-keygen", "frost-refresh", "taproot-refresh"} {
			p := p
			cs = append(cs, vk.Case{ID: fmt.Sprintf("high-degree/%s/pos%d", p, pos), Run: func(t *vk.T) { c04Degree(t, p, pos, 3+pos%2, 1, +1) }})
			cs = append(cs, vk.Case{ID: fmt.Sprintf("low-degree/%s/pos%d", p, pos), Run: func(t *vk.T) { c04Degree(t, p, pos, 3+pos%2, 2, -1) }})
		}
	}
	for pos := 0; pos < env.Pick(1, 3); pos++ {
		pos := pos
		cs = append(cs, vk.Case{ID: fmt.Sprintf("short-presignature-id/offline/pos%d", pos), Run: func(t *vk.T) { c04ShortID(t, "offline", pos+1) }})
		cs = append(cs, vk.Case{ID: fmt.Sprintf("short-presignature-id/full/pos%d", pos), Run: func(t *vk.T) { c04ShortID(t, "full", pos) }})
	}
	for pos := 0; pos < env.Pick(2, 3); pos++ {
		pos := pos
		cs = append(cs, vk.Case{ID: fmt.Sprintf("identifiable-abort/online/sigma-share-off-by-one/pos%d", pos), Run: func(t *vk.T) { c04Online(t, pos, 3) }})
	}
	return cs
}

// roundOf returns the current round object of a MultiHandler (pointer to the round struct) and its number.
func roundOf(h protocol.Handler) (reflect.Value, int) {
	f, err := fx.Unexported(reflect.ValueOf(h), "currentRound")
	if err != nil || f.IsNil() {
		return reflect.Value{}, -1
	}
	v := f.Elem() // pointer to round struct
	num := -1
	if m := v.MethodByName("Number"); m.IsValid() {
		num = int(m.Call(nil)[0].Uint())
	}
	return v, num
}

func fieldOf(round reflect.Value, name string) (reflect.Value, bool) {
	if round.Kind() == reflect.Ptr {
		round = round.Elem()
	}
	if round.Kind() != reflect.Struct {
		return reflect.Value{}, false
	}
	// FieldByName follows embedded (promoted) fields
	var f reflect.Value
	ok := false
	func() {
		defer func() { recover() }()
		f = round.FieldByName(name)
		ok = f.IsValid() && f.CanSet()
	}()
	return f, ok
}

func scalarAdd(s curve.Scalar, d int64) curve.Scalar {
	v := new(big.Int).Add(IntOf(s), big.NewInt(d))
	return LibScalar(v.Mod(v, ref.Q))
}

func c04State(t *vk.T, variant, dev string, pos, n int) {
	r := t.Rng
	fx.InstallPrimeHook()
	fx.SetPrimeOffset(uint64(r.Intn(1000)))
	ids := fx.IDs(r, r.Intn(3), n)
	cm := fx.NewCMPMatDealt(ids, n-2)
	msg := r.Bytes(32)
	C := ids[pos]
	start := func(id party.ID) protocol.StartFunc {
		if variant == "offline" {
			return cmp.Presign(fx.CloneCMP(cm.Cfgs[id]), ids, nil)
		}
		return presign.StartPresign(fx.CloneCMP(cm.Cfgs[id]), ids, msg, nil)
	}
	appliedBefore, appliedAfter, mutatedMsg := false, false, false
	infra := ""
	n2, _, err := fx.RunMulti(r, ids, start, fx.Opt{SessionID: r.Bytes(4), NoRun: true})
	if err != nil {
		t.Inconclusive("start: %v", err)
		return
	}
	cheater := n2.Party(C)
	cheater.Corrupt = true
	set := func(round reflect.Value, name string, f func(old reflect.Value) reflect.Value) bool {
		fv, ok := fieldOf(round, name)
		if !ok {
			infra = "INFRASTRUCTURE: field " + name + " not reachable in " + round.Type().String()
			return false
		}
		fv.Set(f(fv))
		return true
	}
	adjust := func() {
		rv, num := roundOf(cheater.H)
		if !rv.IsValid() {
			return
		}
		switch dev {
		case "chi-via-x-during-round3", "gamma-during-round3":
			field := "SecretECDSA"
			if dev == "gamma-during-round3" {
				field = "GammaShare"
			}
			bump := func(d int64) func(old reflect.Value) reflect.Value {
				return func(old reflect.Value) reflect.Value {
					if field == "SecretECDSA" {
						return reflect.ValueOf(scalarAdd(old.Interface().(curve.Scalar), d)).Convert(old.Type())
					}
					g := old.Interface().(*saferith.Int)
					return reflect.ValueOf(new(saferith.Int).SetBig(new(big.Int).Add(g.Big(), big.NewInt(d)), g.AnnouncedLen()+8))
				}
			}
			if num == 3 && !appliedBefore {
				appliedBefore = set(rv, field, bump(-1))
			}
			if num >= 4 && appliedBefore && !appliedAfter {
				appliedAfter = set(rv, field, bump(+1))
			}
		case "chi-via-x-from-round3":
			if num == 3 && !appliedBefore {
				appliedBefore = set(rv, "SecretECDSA", func(old reflect.Value) reflect.Value {
					return reflect.ValueOf(scalarAdd(old.Interface().(curve.Scalar), 1)).Convert(old.Type())
				})
				appliedAfter = appliedBefore
			}
		case "delta-share-off-by-one":
			if num >= 4 && !appliedAfter {
				fv, ok := fieldOf(rv, "DeltaShares")
				if !ok {
					infra = "INFRASTRUCTURE: field DeltaShares not reachable"
					return
				}
				cur := fv.MapIndex(reflect.ValueOf(C))
				if cur.IsValid() {
					fv.SetMapIndex(reflect.ValueOf(C), reflect.ValueOf(scalarAdd(cur.Interface().(curve.Scalar), -1)).Convert(fv.Type().Elem()))
					appliedBefore, appliedAfter = true, true
				}
			}
		}
	}
	n2.OnDeliver = func(_ *sim.Net, d *sim.Delivery) []*sim.Delivery {
		if d.Round == 0 {
			return nil // abort notices suppressed: every honest signer must reach its own verdict
		}
		if d.Target == cheater {
			adjust()
		}
		return []*sim.Delivery{d}
	}
	n2.AfterStep = func(_ *sim.Net) { adjust() }
	n2.OnEmit = func(_ *sim.Net, from *sim.Party, m *protocol.Message) bool {
		if dev == "delta-share-off-by-one" && from == cheater && m.RoundNumber == 4 && m.Broadcast && !mutatedMsg {
			root, err := adv.Decode(m.Data)
			if err == nil {
				for _, s := range adv.Sites(root, 3) {
					if s.Path == "/DeltaShare" {
						b := adv.Get(root, s).([]byte)
						v := new(big.Int).Sub(new(big.Int).SetBytes(b), big.NewInt(1))
						v.Mod(v, ref.Q)
						nb := make([]byte, 32)
						v.FillBytes(nb)
						if enc, err := adv.Encode(adv.With(root, s, nb, false)); err == nil {
							m.Data = enc // echo-consistent: the cheater's stored broadcast changes with it
							mutatedMsg = true
						}
					}
				}
			}
		}
		return true
	}
	var perr string
	if p, fr, txt := vk.Guard(func() { n2.Run() }); p {
		perr = fr + ": " + txt
	}
	t.Obs("evaluations", 1)
	tag := fmt.Sprintf("cmp-presign-%s n=%d cheater=%q (position %d) deviation=%s", variant, n, C, pos, dev)
	if infra != "" {
		t.Inconclusive("%s: %s", tag, infra)
		return
	}
	if !appliedBefore || (dev == "delta-share-off-by-one" && !mutatedMsg) {
		t.Inconclusive("%s: the deviation could not be applied (before=%v after=%v msg=%v)", tag, appliedBefore, appliedAfter, mutatedMsg)
		return
	}
	t.Distinct("identifiable-abort|%s|%s|pos=%d|n=%d", variant, dev, pos, n)
	if perr != "" {
		t.Violation("identifiable-abort|"+variant+"|"+dev+"|panic", "%s: a participant panicked during the abort path: %s", tag, truncStr(perr, 200))
		return
	}
	outs := fx.Outcomes(n2)
	for _, o := range outs {
		if o.ID == C {
			continue
		}
		switch o.State {
		case "done":
			t.Violation("identifiable-abort|"+variant+"|"+dev+"|honest-signer-completed", "%s: honest signer %q completed although the cheater's contribution is inconsistent", tag, o.ID)
		case "running":
			t.Violation("identifiable-abort|"+variant+"|"+dev+"|honest-signer-left-waiting", "%s: honest signer %q never reaches a verdict (unfinished at quiescence)", tag, o.ID)
		case "failed":
			var pe protocol.Error
			if !errors.As(o.Err, &pe) {
				t.Violation("identifiable-abort|"+variant+"|"+dev+"|no-culprit-list", "%s: %q failed without a culprit list: %v", tag, o.ID, o.Err)
				continue
			}
			t.Obs("errors_with_culprit_lists_judged", 1)
			if len(pe.Culprits) != 1 || pe.Culprits[0] != C {
				t.Violation("identifiable-abort|"+variant+"|"+dev+"|cheater-not-singled-out", "%s: honest signer %q ends with culprits %v (%s); expected exactly [%s]", tag, o.ID, pe.Culprits, truncStr(pe.Err.Error(), 140), C)
			}
		}
	}
	if pos == 0 {
		t.Sample(map[string]any{"kind": "identifiable abort", "variant": variant, "deviation": dev, "cheater": string(C), "outcomes": fx.Describe(outs)})
	}
}

func c04Online(t *vk.T, pos, n int) {
	r := t.Rng
	fx.InstallPrimeHook()
	fx.SetPrimeOffset(uint64(r.Intn(1000)))
	ids := fx.IDs(r, r.Intn(3), n)
	cm := fx.NewCMPMatDealt(ids, n-2)
	msg := r.Bytes([]int{32, 64, 48}[pos%3]) // digests longer than 32 bytes are reduced differently by a careless scalar conversion
	C := ids[pos]
	_, outs, err := fx.RunMulti(r, ids, func(id party.ID) protocol.StartFunc { return cmp.Presign(cm.Cfgs[id], ids, nil) }, fx.Opt{})
	if err != nil || !fx.AllDone(outs) {
		t.Inconclusive("presign failed: %v %s", err, fx.Describe(outs))
		return
	}
	pre := map[party.ID]*ecdsa.PreSignature{}
	for _, o := range outs {
		pre[o.ID] = o.Value.(*ecdsa.PreSignature)
	}
	mutated := false
	var perr string
	var n2 *sim.Net
	if p, fr, txt := vk.Guard(func() {
		n2, outs, err = fx.RunMulti(r, ids, func(id party.ID) protocol.StartFunc { return cmp.PresignOnline(cm.Cfgs[id], pre[id], msg, nil) }, fx.Opt{SessionID: r.Bytes(4), Prepare: func(nn *sim.Net) {
			nn.Party(C).Corrupt = true
			nn.OnDeliver = func(_ *sim.Net, d *sim.Delivery) []*sim.Delivery {
				if d.Round == 0 {
					return nil
				}
				return []*sim.Delivery{d}
			}
			nn.OnEmit = func(_ *sim.Net, from *sim.Party, m *protocol.Message) bool {
				if from.ID != C || !m.Broadcast || mutated {
					return true
				}
				root, err := adv.Decode(m.Data)
				if err != nil {
					return true
				}
				for _, s := range adv.Sites(root, 3) {
					if strings.Contains(s.Path, "Sigma") {
						if b, ok := adv.Get(root, s).([]byte); ok && len(b) == 32 {
							v := new(big.Int).Add(new(big.Int).SetBytes(b), big.NewInt(1))
							v.Mod(v, ref.Q)
							nb := make([]byte, 32)
							v.FillBytes(nb)
							if enc, err := adv.Encode(adv.With(root, s, nb, false)); err == nil {
								m.Data = enc
								mutated = true
							}
						}
					}
				}
				return true
			}
		}})
	}); p {
		perr = fr + ": " + txt
	}
	_ = n2
	t.Obs("evaluations", 1)
	tag := fmt.Sprintf("cmp-presign-online n=%d cheater=%q (position %d) deviation=sigma-share-off-by-one", n, C, pos)
	if perr != "" {
		t.Violation("identifiable-abort|online|sigma-share|panic", "%s: %s", tag, truncStr(perr, 200))
		return
	}
	if err != nil || !mutated {
		t.Inconclusive("%s: could not apply (%v, mutated=%v)", tag, err, mutated)
		return
	}
	t.Distinct("identifiable-abort|online|sigma-share-off-by-one|pos=%d|n=%d", pos, n)
	for _, o := range outs {
		if o.ID == C {
			continue
		}
		var pe protocol.Error
		switch {
		case o.State == "done":
			t.Violation("identifiable-abort|online|sigma-share|honest-signer-completed", "%s: honest signer %q completed", tag, o.ID)
		case o.State == "running":
			t.Violation("identifiable-abort|online|sigma-share|honest-signer-left-waiting", "%s: honest signer %q unfinished at quiescence", tag, o.ID)
		case !errors.As(o.Err, &pe):
			t.Violation("identifiable-abort|online|sigma-share|no-culprit-list", "%s: %q failed without culprit list: %v", tag, o.ID, o.Err)
		case len(pe.Culprits) != 1 || pe.Culprits[0] != C:
			t.Violation("identifiable-abort|online|sigma-share|cheater-not-singled-out", "%s: honest signer %q ends with culprits %v (%s)", tag, o.ID, pe.Culprits, truncStr(pe.Err.Error(), 140))
		default:
			t.Obs("errors_with_culprit_lists_judged", 1)
		}
	}
	t.Sample(map[string]any{"kind": "identifiable abort", "variant": "online", "deviation": "sigma share +1 (echo-consistent)", "cheater": string(C), "outcomes": fx.Describe(outs)})
}

// degreeRun: the cheater shares its secret with a polynomial of degree t+delta (otherwise fully consistent: valid
// commitments, proofs and shares).  Abort notices are suppressed so that every honest party reaches its own verdict.
// Returns the outcomes, the cheater and whether the deviation was applied.
func degreeRun(t *vk.T, proto string, pos, n, th, delta int) (outs []fx.Outcome, C party.ID, tag string, ok bool) {
	r := t.Rng
	ids := fx.IDs(r, r.Intn(3), n)
	C = ids[pos%n]
	applied, infra := false, ""
	var cm *fx.CMPMat
	var fm *fx.FrostMat
	var tm *fx.TaprootMat
	var err error
	switch proto {
	case "cmp-keygen", "cmp-refresh":
		fx.InstallPrimeHook()
		fx.SetPrimeOffset(uint64(r.Intn(1000)))
		if proto == "cmp-refresh" {
			cm = fx.NewCMPMatDealt(ids, th)
		}
	case "frost-refresh":
		fm, err = fx.NewFrostMat(r, ids, th, fx.Opt{})
	case "taproot-refresh":
		tm, err = fx.NewTaprootMat(r, ids, th, fx.Opt{})
	}
	if err != nil {
		t.Inconclusive("keygen: %v", err)
		return nil, C, "", false
	}
	start := func(id party.ID) protocol.StartFunc {
		var sf protocol.StartFunc
		switch proto {
		case "cmp-refresh":
			sf = cmp.Refresh(fx.CloneCMP(cm.Cfgs[id]), nil)
		case "cmp-keygen":
			sf = cmp.Keygen(group, id, ids, th, nil)
		case "frost-keygen":
			sf = frost.Keygen(group, id, ids, th)
		case "taproot-keygen":
			sf = frost.KeygenTaproot(id, ids, th)
		case "frost-refresh":
			sf = frost.Refresh(fx.CloneFrost(fm.Cfgs[id]), ids)
		case "taproot-refresh":
			sf = frost.RefreshTaproot(fx.CloneTaproot(tm.Cfgs[id]), ids)
		}
		if id != C {
			return sf
		}
		return func(sid []byte) (round.Session, error) {
			s, err := sf(sid)
			if err != nil || s == nil {
				return s, err
			}
			if strings.HasPrefix(proto, "cmp-") {
				fv, ok := fieldOf(reflect.ValueOf(s), "VSSSecret")
				if !ok {
					infra = "INFRASTRUCTURE: field VSSSecret not reachable in " + reflect.TypeOf(s).String()
					return s, err
				}
				old, ok := fv.Interface().(*polynomial.Polynomial)
				if !ok || old == nil {
					infra = "INFRASTRUCTURE: VSSSecret is not a polynomial"
					return s, err
				}
				fv.Set(reflect.ValueOf(polynomial.NewPolynomial(group, th+delta, old.Constant())))
				applied = true
				return s, err
			}
			// FROST samples its polynomial in the first Finalize from the round's threshold field
			fv, uerr := fx.Unexported(reflect.ValueOf(s), "threshold")
			if uerr != nil || fv.Kind() != reflect.Int {
				infra = "INFRASTRUCTURE: field threshold not reachable in " + reflect.TypeOf(s).String()
				return s, err
			}
			fv.SetInt(int64(th + delta))
			applied = true
			return s, err
		}
	}
	n2, _, err := fx.RunMulti(r, ids, start, fx.Opt{SessionID: r.Bytes(4), NoRun: true})
	if err != nil {
		t.Inconclusive("start: %v", err)
		return nil, C, "", false
	}
	n2.Party(C).Corrupt = true
	if applied && !strings.HasPrefix(proto, "cmp-") {
		// the cheater's polynomial has been sampled (first Finalize, inside the constructor); from here on it follows
		// the protocol with the agreed threshold again, so that it keeps talking
		if rv, _ := roundOf(n2.Party(C).H); rv.IsValid() {
			if fv, uerr := fx.Unexported(rv, "threshold"); uerr == nil && fv.Kind() == reflect.Int {
				fv.SetInt(int64(th))
			}
		}
	}
	n2.OnDeliver = func(_ *sim.Net, d *sim.Delivery) []*sim.Delivery {
		if d.Round == 0 {
			return nil
		}
		return []*sim.Delivery{d}
	}
	var perr string
	if p, fr, txt := vk.Guard(func() { n2.Run() }); p {
		perr = fr + ": " + txt
	}
	t.Obs("evaluations", 1)
	tag = fmt.Sprintf("%s n=%d t=%d cheater=%q (position %d) deviation=polynomial-of-degree-t%+d", proto, n, th, C, pos%n, delta)
	if infra != "" || !applied {
		t.Inconclusive("%s: the deviation could not be applied %s", tag, infra)
		return nil, C, tag, false
	}
	if perr != "" {
		t.Violation("degree|"+proto+"|panic", "%s: a participant panicked: %s", tag, truncStr(perr, 200))
		return nil, C, tag, false
	}
	return fx.Outcomes(n2), C, tag, true
}

// c04Degree judges the blame of a degree deviation: whoever refuses must name the cheater, and nobody may name an
// honest party or itself.
func c04Degree(t *vk.T, proto string, pos, n, th, delta int) {
	outs, C, tag, ok := degreeRun(t, proto, pos, n, th, delta)
	if !ok {
		return
	}
	kind := "low-degree"
	if delta > 0 {
		kind = "high-degree"
	}
	t.Distinct("%s|%s|pos=%d|n=%d|t=%d", kind, proto, pos%n, n, th)
	for _, o := range outs {
		if o.ID == C {
			continue
		}
		t.Obs(kind+"|honest_"+o.State, 1)
		if o.State != "failed" {
			continue
		}
		var pe protocol.Error
		if !errors.As(o.Err, &pe) {
			continue
		}
		t.Obs("errors_with_culprit_lists_judged", 1)
		for _, c := range pe.Culprits {
			if c == o.ID {
				t.Violation(kind+"|"+proto+"|honest-party-blames-itself", "%s: honest party %q ends with culprits %v (%s)", tag, o.ID, pe.Culprits, truncStr(pe.Err.Error(), 140))
			} else if c != C {
				t.Violation(kind+"|"+proto+"|honest-party-blamed", "%s: honest party %q names the honest party %q (%s)", tag, o.ID, c, truncStr(pe.Err.Error(), 140))
			}
		}
		if len(pe.Culprits) == 0 {
			t.Violation(kind+"|"+proto+"|verification-failure-not-attributed", "%s: honest party %q refused (%s) without naming the sender", tag, o.ID, truncStr(pe.Err.Error(), 140))
		}
	}
	if pos == 0 {
		t.Sample(map[string]any{"kind": kind + " sharing polynomial", "protocol": proto, "cheater": string(C), "outcomes": fx.Describe(outs)})
	}
}

// c03Degree judges the results of a degree deviation: honest finishers must hold consistent key material.
func c03Degree(t *vk.T, proto string, pos, n, th, delta int) {
	outs, C, tag, ok := degreeRun(t, proto, pos, n, th, delta)
	if !ok {
		return
	}
	t.Distinct("degree%+d|%s|pos=%d|n=%d|t=%d", delta, proto, pos%n, n, th)
	honest := honestOf(outs, C)
	nDone := 0
	for _, o := range honest {
		if o.State == "done" {
			nDone++
		}
	}
	t.Obs(fmt.Sprintf("degree_deviation|honest_finishers=%d", nDone), 1)
	keygenJudge(proto, nil)(t, honest, fmt.Sprintf("%s|wrong-result|polynomial-of-degree-t%+d", proto, delta), tag)
}

// c04ShortID: the cheater commits (round 2) to a presignature-id contribution of 2 bytes with a correct commitment
// and opens it correctly in round 7; everything else it sends is honest.  The opening is malformed: every honest
// signer that gives up must name the cheater (not nobody, not an honest signer).
func c04ShortID(t *vk.T, variant string, pos int) {
	r := t.Rng
	fx.InstallPrimeHook()
	fx.SetPrimeOffset(uint64(r.Intn(1000)))
	n := 3
	ids := fx.IDs(r, r.Intn(3), n)
	cm := fx.NewCMPMatDealt(ids, 1)
	msg := r.Bytes(32)
	C := ids[pos%n]
	start := func(id party.ID) protocol.StartFunc {
		if variant == "offline" {
			return cmp.Presign(fx.CloneCMP(cm.Cfgs[id]), ids, nil)
		}
		return presign.StartPresign(fx.CloneCMP(cm.Cfgs[id]), ids, msg, nil)
	}
	n2, _, err := fx.RunMulti(r, ids, start, fx.Opt{SessionID: r.Bytes(4), NoRun: true})
	if err != nil {
		t.Inconclusive("start: %v", err)
		return
	}
	cheater := n2.Party(C)
	cheater.Corrupt = true
	tag := fmt.Sprintf("cmp-presign-%s n=%d cheater=%q (position %d) deviation=two-byte-presignature-id", variant, n, C, pos%n)
	rv, num := roundOf(cheater.H)
	var newCommit []byte
	applied := false
	func() {
		defer func() {
			if rec := recover(); rec != nil {
				applied = false
			}
		}()
		if !rv.IsValid() || num != 2 {
			return
		}
		hm := rv.MethodByName("HashForID")
		if !hm.IsValid() {
			return
		}
		h, ok := hm.Call([]reflect.Value{reflect.ValueOf(C)})[0].Interface().(*hash.Hash)
		if !ok || h == nil {
			return
		}
		short := types.RID{0xAB, 0xCD}
		c2, d2, cerr := h.Commit(short)
		if cerr != nil {
			return
		}
		pid, ok1 := fieldOf(rv, "PresignatureID")
		dec, ok2 := fieldOf(rv, "DecommitmentID")
		if !ok1 || !ok2 {
			return
		}
		pid.SetMapIndex(reflect.ValueOf(C), reflect.ValueOf(short))
		dec.Set(reflect.ValueOf(d2))
		newCommit = c2
		applied = true
	}()
	replaced := false
	n2.OnEmit = func(_ *sim.Net, from *sim.Party, m *protocol.Message) bool {
		if applied && from == cheater && m.RoundNumber == 2 && m.Broadcast && !replaced {
			if root, err := adv.Decode(m.Data); err == nil {
				for _, s := range adv.Sites(root, 3) {
					if s.Path == "/CommitmentID" {
						if enc, err := adv.Encode(adv.With(root, s, []byte(newCommit), false)); err == nil {
							m.Data = enc
							replaced = true
						}
					}
				}
			}
		}
		return true
	}
	n2.OnDeliver = func(_ *sim.Net, d *sim.Delivery) []*sim.Delivery {
		if d.Round == 0 {
			return nil
		}
		return []*sim.Delivery{d}
	}
	var perr string
	if p, fr, txt := vk.Guard(func() { n2.Run() }); p {
		perr = fr + ": " + txt
	}
	t.Obs("evaluations", 1)
	if !applied || !replaced {
		t.Inconclusive("%s: the deviation could not be applied (state=%v message=%v)", tag, applied, replaced)
		return
	}
	t.Distinct("short-presignature-id|%s|pos=%d", variant, pos%n)
	if perr != "" {
		t.Violation("short-presignature-id|"+variant+"|panic", "%s: a participant panicked: %s", tag, truncStr(perr, 200))
		return
	}
	for _, o := range fx.Outcomes(n2) {
		if o.ID == C {
			continue
		}
		t.Obs("short_presignature_id|honest_"+o.State, 1)
		switch o.State {
		case "done":
			t.Violation("short-presignature-id|"+variant+"|accepted", "%s: honest signer %q completed with a 2-byte presignature-id contribution", tag, o.ID)
		case "failed":
			var pe protocol.Error
			if !errors.As(o.Err, &pe) || len(pe.Culprits) != 1 || pe.Culprits[0] != C {
				t.Violation("short-presignature-id|"+variant+"|cheater-not-named", "%s: honest signer %q gives up with %v instead of naming the cheater", tag, o.ID, o.Err)
			}
		}
	}
}
