package checks

import (
	"fmt"
	"math/big"
	"reflect"

	"github.com/taurusgroup/multi-party-sig/internal/round"
	"github.com/taurusgroup/multi-party-sig/pkg/math/curve"
	"github.com/taurusgroup/multi-party-sig/pkg/math/polynomial"
	"github.com/taurusgroup/multi-party-sig/pkg/party"
	"github.com/taurusgroup/multi-party-sig/pkg/protocol"
	"github.com/taurusgroup/multi-party-sig/protocols/cmp"
	"github.com/taurusgroup/multi-party-sig/verif/fx"
	"github.com/taurusgroup/multi-party-sig/verif/sim"
	"github.com/taurusgroup/multi-party-sig/verif/vk"
)

// polyWithRoot returns g(X) = c0 + c1*X with g(v) = 0 (c1 = -c0/v), built from a library polynomial whose
// coefficients are overwritten, and g+bump (same slope, constant c0+bump).
func polyWithRoot(c0 curve.Scalar, v curve.Scalar, bump int) (*polynomial.Polynomial, error) {
	p := polynomial.NewPolynomial(group, 1, group.NewScalar().Set(c0))
	cf, err := fx.Unexported(reflect.ValueOf(p), "coefficients")
	if err != nil || cf.Kind() != reflect.Slice || cf.Len() != 2 {
		return nil, fmt.Errorf("INFRASTRUCTURE: coefficients of a polynomial not reachable")
	}
	c1 := group.NewScalar().Set(c0).Negate().Mul(group.NewScalar().Set(v).Invert())
	k0 := group.NewScalar().Set(c0)
	for i := 0; i < bump; i++ {
		k0.Add(LibScalar(big.NewInt(1)))
	}
	cf.Index(0).Set(reflect.ValueOf(k0))
	cf.Index(1).Set(reflect.ValueOf(c1))
	return p, nil
}

// c03RootAtVictim: CMP key generation between the cheater and one victim (t = 1).  The cheater shares with a
// polynomial that has a root at the victim's identifier — its public commitment evaluates to the identity point at
// the victim, all commitments and proofs are consistent — and then hands the victim the share g(v)+1 instead of
// g(v) = 0.  The victim's share check compares 1*G with the identity point (in whatever representation the
// evaluation in the exponent leaves it): it must refuse, or whatever it finishes with must be consistent.
// Deliveries are ordered by round so that the cheater is in round 3, not past it, when its polynomial is exchanged.
func c03RootAtVictim(t *vk.T, pos int) {
	r := t.Rng
	fx.InstallPrimeHook()
	fx.SetPrimeOffset(uint64(r.Intn(1000)))
	ids := fx.IDs(r, r.Intn(3), 2)
	C, V := ids[pos%2], ids[1-pos%2]
	tag := fmt.Sprintf("cmp-keygen n=2 t=1 cheater=%q victim=%q deviation=polynomial-with-root-at-victim+share-off-by-one", C, V)
	infra := ""
	var bumped *polynomial.Polynomial
	start := func(id party.ID) protocol.StartFunc {
		sf := cmp.Keygen(group, id, ids, 1, nil)
		if id != C {
			return sf
		}
		return func(sid []byte) (round.Session, error) {
			s, err := sf(sid)
			if err != nil || s == nil {
				return s, err
			}
			fv, ok := fieldOf(reflect.ValueOf(s), "VSSSecret")
			if !ok {
				infra = "field VSSSecret not reachable"
				return s, err
			}
			old, ok := fv.Interface().(*polynomial.Polynomial)
			if !ok || old == nil {
				infra = "VSSSecret is not a polynomial"
				return s, err
			}
			g, e1 := polyWithRoot(old.Constant(), V.Scalar(group), 0)
			g1, e2 := polyWithRoot(old.Constant(), V.Scalar(group), 1)
			if e1 != nil || e2 != nil || !g.Evaluate(V.Scalar(group)).IsZero() || g1.Evaluate(V.Scalar(group)).IsZero() {
				infra = "polynomial with a root at the victim could not be built"
				return s, err
			}
			fv.Set(reflect.ValueOf(g))
			bumped = g1
			return s, err
		}
	}
	n2, _, err := fx.RunMulti(r, ids, start, fx.Opt{SessionID: r.Bytes(4), NoRun: true, Sched: func(n *sim.Net) int {
		best := 0
		for i, d := range n.Pending {
			if d.Round < n.Pending[best].Round {
				best = i
			}
		}
		return best
	}})
	if err != nil {
		t.Inconclusive("start: %v", err)
		return
	}
	cheater := n2.Party(C)
	cheater.Corrupt = true
	swapped := false
	n2.AfterStep = func(_ *sim.Net) {
		if swapped || bumped == nil {
			return
		}
		rv, num := roundOf(cheater.H)
		if !rv.IsValid() || num != 3 {
			return
		}
		if fv, ok := fieldOf(rv, "VSSSecret"); ok && fv.CanSet() {
			fv.Set(reflect.ValueOf(bumped))
			swapped = true
		}
	}
	n2.OnDeliver = func(_ *sim.Net, d *sim.Delivery) []*sim.Delivery {
		if d.Round == 0 {
			return nil // abort notices suppressed: the victim reaches its own verdict
		}
		return []*sim.Delivery{d}
	}
	var perr string
	if p, fr, txt := vk.Guard(func() { n2.Run() }); p {
		perr = fr + ": " + txt
	}
	t.Obs("evaluations", 1)
	if infra != "" || !swapped {
		t.Inconclusive("%s: the deviation could not be applied (%s, swapped=%v)", tag, infra, swapped)
		return
	}
	if perr != "" {
		t.Violation("root-at-victim|cmp-keygen|panic", "%s: a participant panicked: %s", tag, truncStr(perr, 200))
		return
	}
	outs := fx.Outcomes(n2)
	honest := honestOf(outs, C)
	t.Distinct("root-at-victim|cmp-keygen|pos=%d", pos%2)
	for _, o := range honest {
		t.Obs("root_at_victim|victim_state="+o.State, 1)
	}
	keygenJudge("cmp-keygen", nil)(t, honest, "cmp-keygen|wrong-result|polynomial-with-root-at-victim", tag)
}
