package checks

import (
	"bytes"
	"errors"
	"fmt"
	"math/big"
	"reflect"
	"strings"

	"github.com/fxamacker/cbor/v2"
	"github.com/taurusgroup/multi-party-sig/pkg/ecdsa"
	"github.com/taurusgroup/multi-party-sig/pkg/math/curve"
	"github.com/taurusgroup/multi-party-sig/pkg/party"
	"github.com/taurusgroup/multi-party-sig/pkg/protocol"
	"github.com/taurusgroup/multi-party-sig/protocols/cmp"
	"github.com/taurusgroup/multi-party-sig/protocols/doerner"
	"github.com/taurusgroup/multi-party-sig/protocols/frost"
	"github.com/taurusgroup/multi-party-sig/verif/adv"
	"github.com/taurusgroup/multi-party-sig/verif/fx"
	"github.com/taurusgroup/multi-party-sig/verif/ref"
	"github.com/taurusgroup/multi-party-sig/verif/sim"
	"github.com/taurusgroup/multi-party-sig/verif/vk"
)

func init() {
	vk.Register(&vk.Check{
		ID:    "C15",
		Level: "exploration",
		Rule: "every result type (cmp.Config binary and CBOR, frost.Config, TaprootConfig, Doerner sender/receiver, PreSignature, Signature, Message) is encoded with the documented encoder and restored with the documented Empty* constructor: byte-identical re-encoding, deep equality including unexported state, and a later session in which a seeded subset of parties uses restored objects; every single-node CBOR malformation of the honest encodings (plus semantic corruptions and seeded random byte corruptions) is restored: error, or an object satisfying the validity rules; panic / silently empty / rule-breaking object is a violation; " +
			"distinct non-trivial = distinct (type, oracle) round-trip verdicts plus distinct (type, field path, malformation) refusal verdicts",
		MinDistinct:  100,
		Assumptions:  []string{"validity rules are those the statement lists: zero secrets, identity points, wrong-size or even moduli, inconsistent threshold, duplicate or missing parties, silently empty"},
		Cases:        c15Cases,
		CaseTimeoutS: 2400,
		MemLimitMB:   12288,
	})
}

type codec struct {
	name    string
	encode  func(obj interface{}) ([]byte, error)
	restore func(data []byte) (interface{}, error)
	// rule returns the validity rule broken by a restored object ("" = valid)
	rule func(obj interface{}) string
}

func ptOK(p curve.Point) bool {
	if p == nil {
		return false
	}
	ok := false
	vk.Guard(func() { ok = !p.IsIdentity() })
	if !ok {
		return false
	}
	_, err := PtOf(p)
	return err == nil
}

func scOK(s curve.Scalar) bool {
	if s == nil {
		return false
	}
	ok := false
	vk.Guard(func() { ok = !s.IsZero() })
	return ok
}

func frostRule(c *frost.Config) string {
	if c == nil {
		return "nil-object"
	}
	if c.ID == "" && c.VerificationShares == nil || (c.ID == "" && len(c.VerificationShares.Points) == 0) {
		return "silently-empty"
	}
	if !scOK(c.PrivateShare) {
		return "zero-secret"
	}
	if !ptOK(c.PublicKey) {
		return "identity-point"
	}
	if c.VerificationShares == nil || len(c.VerificationShares.Points) == 0 {
		return "missing-parties"
	}
	for _, p := range c.VerificationShares.Points {
		if !ptOK(p) {
			return "identity-point"
		}
	}
	if _, ok := c.VerificationShares.Points[c.ID]; !ok {
		return "missing-parties"
	}
	if c.Threshold < 0 || c.Threshold >= len(c.VerificationShares.Points) {
		return "inconsistent-threshold"
	}
	return ""
}

func taprootRule(c *frost.TaprootConfig) string {
	if c == nil {
		return "nil-object"
	}
	if c.ID == "" && len(c.VerificationShares) == 0 {
		return "silently-empty"
	}
	if c.PrivateShare == nil || c.PrivateShare.IsZero() {
		return "zero-secret"
	}
	if len(c.PublicKey) != 32 {
		return "identity-point"
	}
	if _, err := ref.LiftX(new(big.Int).SetBytes(c.PublicKey)); err != nil {
		return "identity-point"
	}
	if len(c.VerificationShares) == 0 {
		return "missing-parties"
	}
	for _, p := range c.VerificationShares {
		if p == nil || !ptOK(p) {
			return "identity-point"
		}
	}
	if _, ok := c.VerificationShares[c.ID]; !ok {
		return "missing-parties"
	}
	if c.Threshold < 0 || c.Threshold >= len(c.VerificationShares) {
		return "inconsistent-threshold"
	}
	return ""
}

func cmpRule(c *cmp.Config) string {
	if c == nil {
		return "nil-object"
	}
	if c.ID == "" && len(c.Public) == 0 {
		return "silently-empty"
	}
	if !scOK(c.ECDSA) || !scOK(c.ElGamal) {
		return "zero-secret"
	}
	if c.Paillier == nil {
		return "missing-paillier"
	}
	for _, p := range []*big.Int{c.Paillier.P().Big(), c.Paillier.Q().Big()} {
		h := new(big.Int).Rsh(p, 1)
		if p.BitLen() != 1024 || p.Bit(0) == 0 || !p.ProbablyPrime(4) || !h.ProbablyPrime(4) {
			return "bad-modulus"
		}
	}
	if len(c.Public) == 0 {
		return "missing-parties"
	}
	if _, ok := c.Public[c.ID]; !ok {
		return "missing-parties"
	}
	if c.Threshold < 0 || c.Threshold >= len(c.Public) {
		return "inconsistent-threshold"
	}
	one := big.NewInt(1)
	for _, p := range c.Public {
		if p == nil || !ptOK(p.ECDSA) || !ptOK(p.ElGamal) {
			return "identity-point"
		}
		if p.Paillier == nil || p.Pedersen == nil {
			return "bad-modulus"
		}
		n := p.Paillier.N().Big()
		if n.BitLen() != 2048 || n.Bit(0) == 0 {
			return "bad-modulus"
		}
		pn := p.Pedersen.N().Big()
		if pn.BitLen() != 2048 || pn.Bit(0) == 0 {
			return "bad-modulus"
		}
		s, tt := p.Pedersen.S().Big(), p.Pedersen.T().Big()
		if s.Sign() <= 0 || tt.Sign() <= 0 || s.Cmp(pn) >= 0 || tt.Cmp(pn) >= 0 || s.Cmp(tt) == 0 ||
			new(big.Int).GCD(nil, nil, s, pn).Cmp(one) != 0 || new(big.Int).GCD(nil, nil, tt, pn).Cmp(one) != 0 {
			return "pedersen-parameters-invalid"
		}
	}
	return ""
}

func doernerRule(sec curve.Scalar, pub curve.Point, setupZero bool) string {
	if sec == nil && pub == nil {
		return "silently-empty"
	}
	if !scOK(sec) {
		return "zero-secret"
	}
	if !ptOK(pub) {
		return "identity-point"
	}
	if setupZero {
		return "ot-setup-empty"
	}
	return ""
}

func allZeroStruct(v interface{}) bool {
	rv := reflect.ValueOf(v)
	if rv.Kind() == reflect.Ptr {
		if rv.IsNil() {
			return true
		}
		rv = rv.Elem()
	}
	z := reflect.Zero(rv.Type())
	return deepDiff(rv, z, "", 0) == ""
}

func presigRule(p *ecdsa.PreSignature) string {
	if p == nil {
		return "nil-object"
	}
	if p.RBar == nil || p.S == nil || (len(p.RBar.Points) == 0 && len(p.S.Points) == 0) {
		return "silently-empty"
	}
	if !scOK(p.KShare) || !scOK(p.ChiShare) {
		return "zero-secret"
	}
	if !ptOK(p.R) {
		return "identity-point"
	}
	if len(p.RBar.Points) != len(p.S.Points) {
		return "missing-parties"
	}
	for id, q := range p.RBar.Points {
		if !ptOK(q) {
			return "identity-point"
		}
		s, ok := p.S.Points[id]
		if !ok {
			return "missing-parties"
		}
		if !ptOK(s) {
			return "identity-point"
		}
	}
	if len(p.ID) != 32 {
		return "bad-id"
	}
	return ""
}

var codecs = map[string]codec{
	"frost.Config": {name: "frost.Config",
		encode: func(o interface{}) ([]byte, error) { return cbor.Marshal(o.(*frost.Config)) },
		restore: func(d []byte) (interface{}, error) {
			c := frost.EmptyConfig(group)
			err := cbor.Unmarshal(d, c)
			return c, err
		},
		rule: func(o interface{}) string { return frostRule(o.(*frost.Config)) }},
	"frost.TaprootConfig": {name: "frost.TaprootConfig",
		encode: func(o interface{}) ([]byte, error) { return cbor.Marshal(o.(*frost.TaprootConfig)) },
		restore: func(d []byte) (interface{}, error) {
			c := &frost.TaprootConfig{}
			err := cbor.Unmarshal(d, c)
			return c, err
		},
		rule: func(o interface{}) string { return taprootRule(o.(*frost.TaprootConfig)) }},
	"cmp.Config/binary": {name: "cmp.Config/binary",
		encode: func(o interface{}) ([]byte, error) { return o.(*cmp.Config).MarshalBinary() },
		restore: func(d []byte) (interface{}, error) {
			c := cmp.EmptyConfig(group)
			err := c.UnmarshalBinary(d)
			return c, err
		},
		rule: func(o interface{}) string { return cmpRule(o.(*cmp.Config)) }},
	"cmp.Config/cbor": {name: "cmp.Config/cbor",
		encode: func(o interface{}) ([]byte, error) { return cbor.Marshal(o.(*cmp.Config)) },
		restore: func(d []byte) (interface{}, error) {
			c := cmp.EmptyConfig(group)
			err := cbor.Unmarshal(d, c)
			return c, err
		},
		rule: func(o interface{}) string { return cmpRule(o.(*cmp.Config)) }},
	"doerner.ConfigReceiver": {name: "doerner.ConfigReceiver",
		encode: func(o interface{}) ([]byte, error) { return cbor.Marshal(o.(*doerner.ConfigReceiver)) },
		restore: func(d []byte) (interface{}, error) {
			c := doerner.EmptyConfigReceiver(group)
			err := cbor.Unmarshal(d, c)
			return c, err
		},
		rule: func(o interface{}) string {
			c := o.(*doerner.ConfigReceiver)
			return doernerRule(c.SecretShare, c.Public, c.Setup == nil || allZeroStruct(c.Setup))
		}},
	"doerner.ConfigSender": {name: "doerner.ConfigSender",
		encode: func(o interface{}) ([]byte, error) { return cbor.Marshal(o.(*doerner.ConfigSender)) },
		restore: func(d []byte) (interface{}, error) {
			c := doerner.EmptyConfigSender(group)
			err := cbor.Unmarshal(d, c)
			return c, err
		},
		rule: func(o interface{}) string {
			c := o.(*doerner.ConfigSender)
			return doernerRule(c.SecretShare, c.Public, c.Setup == nil || allZeroStruct(c.Setup))
		}},
	"ecdsa.PreSignature": {name: "ecdsa.PreSignature",
		encode: func(o interface{}) ([]byte, error) { return cbor.Marshal(o.(*ecdsa.PreSignature)) },
		restore: func(d []byte) (interface{}, error) {
			c := ecdsa.EmptyPreSignature(group)
			err := cbor.Unmarshal(d, c)
			if err == nil {
				err = c.Validate() // the documented validity check of a presignature
			}
			return c, err
		},
		rule: func(o interface{}) string { return presigRule(o.(*ecdsa.PreSignature)) }},
	"ecdsa.Signature": {name: "ecdsa.Signature",
		encode: func(o interface{}) ([]byte, error) { return cbor.Marshal(o.(*ecdsa.Signature)) },
		restore: func(d []byte) (interface{}, error) {
			c := ecdsa.EmptySignature(group)
			err := cbor.Unmarshal(d, &c)
			return &c, err
		},
		rule: func(o interface{}) string {
			s := o.(*ecdsa.Signature)
			// a signature is judged by verification; only the silently empty object is a restore-time rule
			if (s.R == nil || !ptOK(s.R)) && (s.S == nil || !scOK(s.S)) {
				return "silently-empty"
			}
			return ""
		}},
	"protocol.Message": {name: "protocol.Message",
		encode: func(o interface{}) ([]byte, error) { return o.(*protocol.Message).MarshalBinary() },
		restore: func(d []byte) (interface{}, error) {
			m := &protocol.Message{}
			err := m.UnmarshalBinary(d)
			return m, err
		},
		rule: func(o interface{}) string {
			m := o.(*protocol.Message)
			if m.From == "" && m.Protocol == "" && m.Data == nil && m.SSID == nil {
				return "silently-empty"
			}
			return ""
		}},
}

// c15Objects builds one honest object of every type.
type c15World struct {
	frost   *fx.FrostMat
	tap     *fx.TaprootMat
	cmp     *fx.CMPMat
	doe     *fx.DoernerMat
	presigs map[party.ID]*ecdsa.PreSignature
	signers []party.ID
	sig     *ecdsa.Signature
	sigKey  ref.Pt
	sigMsg  []byte
	msgs    []*protocol.Message
}

func c15Build(t *vk.T, needCMP bool) *c15World {
	r := t.Rng
	w := &c15World{}
	ids := fx.IDs(r, r.Intn(3), 3)
	var err error
	if w.frost, err = fx.NewFrostMat(r, ids, 1, fx.Opt{}); err != nil {
		t.Inconclusive("frost keygen: %v", err)
		return nil
	}
	if w.tap, err = fx.NewTaprootMat(r, ids, 1, fx.Opt{}); err != nil {
		t.Inconclusive("taproot keygen: %v", err)
		return nil
	}
	if w.doe, err = fx.NewDoernerMat(r, ids[0], ids[1], fx.Opt{}); err != nil {
		t.Inconclusive("doerner keygen: %v", err)
		return nil
	}
	// messages of a FROST signing session
	n, _, _ := fx.RunMulti(r, ids, func(id party.ID) protocol.StartFunc { return frost.Sign(w.frost.Cfgs[id], ids, []byte("m")) }, fx.Opt{NoRun: true})
	n.DrainAll()
	for _, d := range n.Pending {
		w.msgs = append(w.msgs, sim.Decode(d.Bytes))
	}
	if needCMP {
		fx.InstallPrimeHook()
		fx.SetPrimeOffset(uint64(r.Intn(1000)))
		w.cmp = fx.NewCMPMatDealt(ids, 1)
		w.signers = []party.ID{ids[0], ids[2]}
		_, outs, err := fx.RunMulti(r, w.signers, func(id party.ID) protocol.StartFunc { return cmp.Presign(w.cmp.Cfgs[id], w.signers, nil) }, fx.Opt{})
		if err != nil {
			t.Inconclusive("presign: %v", err)
			return nil
		}
		w.presigs = map[party.ID]*ecdsa.PreSignature{}
		for _, o := range outs {
			p, ok := o.Value.(*ecdsa.PreSignature)
			if !ok {
				t.Inconclusive("presign incomplete: %s", fx.Describe(outs))
				return nil
			}
			w.presigs[o.ID] = p
		}
	}
	// a signature
	d := randScalarBig(r)
	w.sigMsg = r.Bytes(32)
	R, s := ref.ECDSASign(d, w.sigMsg, randScalarBig(r))
	w.sig = &ecdsa.Signature{R: LibPoint(R), S: LibScalar(s)}
	w.sigKey = ref.MulG(d)
	return w
}

func c15Cases(env vk.Env) []vk.Case {
	var cs []vk.Case
	for i := 0; i < env.Pick(2, 20); i++ {
		i := i
		cs = append(cs, vk.Case{ID: fmt.Sprintf("roundtrip-cheap/%d", i), Run: func(t *vk.T) { c15RoundTrip(t, i, false) }})
		cs = append(cs, vk.Case{ID: fmt.Sprintf("roundtrip-cmp/%d", i), Run: func(t *vk.T) { c15RoundTrip(t, i, true) }})
	}
	names := []string{"frost.Config", "frost.TaprootConfig", "doerner.ConfigReceiver", "doerner.ConfigSender", "ecdsa.Signature", "protocol.Message", "cmp.Config/binary", "cmp.Config/cbor", "ecdsa.PreSignature"}
	for _, nm := range names {
		for part := 0; part < 4; part++ {
			nm, part := nm, part
			cs = append(cs, vk.Case{ID: fmt.Sprintf("refuse/%s/%d", nm, part), Run: func(t *vk.T) { c15Refuse(t, nm, part, 4, env) }})
		}
		// thorough: further worlds (other identifiers, keys and objects), each with its own share of the catalogue
		for w := 1; w < env.Pick(1, 5); w++ {
			for part := 0; part < 4; part++ {
				nm, part, w := nm, part, w
				cs = append(cs, vk.Case{ID: fmt.Sprintf("refuse/%s/world%d/%d", nm, w, part), Run: func(t *vk.T) { c15Refuse(t, nm, part, 4, env) }})
			}
		}
	}
	return cs
}

func objOf(w *c15World, name string, r *vk.Rand) interface{} {
	ids := w.frost.Ids
	switch name {
	case "frost.Config":
		return w.frost.Cfgs[ids[r.Intn(len(ids))]]
	case "frost.TaprootConfig":
		return w.tap.Cfgs[ids[r.Intn(len(ids))]]
	case "cmp.Config/binary", "cmp.Config/cbor":
		return w.cmp.Cfgs[ids[r.Intn(len(ids))]]
	case "doerner.ConfigReceiver":
		return w.doe.K.R
	case "doerner.ConfigSender":
		return w.doe.K.S
	case "ecdsa.PreSignature":
		return w.presigs[w.signers[0]]
	case "ecdsa.Signature":
		return w.sig
	case "protocol.Message":
		return w.msgs[r.Intn(len(w.msgs))]
	}
	return nil
}

func prevIdx(k int) int {
	if k > 0 {
		return k - 1
	}
	return 0
}

func c15RoundTrip(t *vk.T, i int, withCMP bool) {
	r := t.Rng
	w := c15Build(t, withCMP)
	if w == nil {
		return
	}
	names := []string{"frost.Config", "frost.TaprootConfig", "doerner.ConfigReceiver", "doerner.ConfigSender", "ecdsa.Signature", "protocol.Message"}
	if withCMP {
		names = []string{"cmp.Config/binary", "cmp.Config/cbor", "ecdsa.PreSignature"}
	}
	restored := map[string]interface{}{}
	for _, nm := range names {
		c := codecs[nm]
		obj := objOf(w, nm, r)
		var data []byte
		var err error
		if p, fr, txt := vk.Guard(func() { data, err = c.encode(obj) }); p || err != nil {
			t.Violation(nm+"|encode-failed", "encoding an honest object failed: %v %s %s", err, fr, txt)
			continue
		}
		var back interface{}
		if p, fr, txt := vk.Guard(func() { back, err = c.restore(data) }); p {
			t.Violation(nm+"|restore-panic|"+fr, "restoring an honest encoding panicked: %s", txt)
			continue
		}
		t.Obs("evaluations", 1)
		if err != nil {
			t.Violation(nm+"|restore-failed", "restoring an honest encoding failed: %v", err)
			continue
		}
		// byte-identical re-encoding is only meaningful where the encoder itself is deterministic (Go map order is not)
		re, err := c.encode(back)
		again, _ := c.encode(obj)
		if err != nil {
			t.Violation(nm+"|re-encoding-failed", "re-encoding the restored object failed: %v", err)
		} else if bytes.Equal(again, data) {
			t.Distinct("roundtrip|%s|re-encoding", nm)
			if !bytes.Equal(re, data) && sameTree(re, data) == false {
				t.Violation(nm+"|re-encoding-differs", "re-encoding the restored object gives a different document")
			}
		} else {
			t.Obs("nondeterministic_encoders_skipped", 1)
			if !sameTree(re, data) {
				t.Violation(nm+"|re-encoding-differs", "re-encoding the restored object gives a different document")
			}
		}
		t.Distinct("roundtrip|%s|deep-equality", nm)
		if d := deepDiff(reflect.ValueOf(obj), reflect.ValueOf(back), "", 0); d != "" {
			t.Violation(nm+"|not-equivalent|"+stripIdx(d), "the restored object differs from the original at %s", d)
		}
		if rule := c.rule(back); rule != "" {
			t.Violation(nm+"|honest-restored-invalid|"+rule, "the object restored from an honest encoding breaks rule %q", rule)
		}
		restored[nm] = back
		if i == 0 {
			t.Sample(map[string]any{"type": nm, "encoded_bytes": len(data)})
		}
	}
	// a receive variable reused for one wire message after the other must hold exactly the last message
	if !withCMP && len(w.msgs) >= 2 {
		var reused protocol.Message
		// a mixed traffic sample: broadcasts, point-to-point messages, with and without echo hashes
		msgs := append([]*protocol.Message{}, w.msgs...)
		_, _, _ = fx.RunMulti(r, w.frost.Ids, func(id party.ID) protocol.StartFunc { return frost.Keygen(group, id, w.frost.Ids, 1) }, fx.Opt{Prepare: func(n *sim.Net) {
			n.OnDeliver = func(_ *sim.Net, d *sim.Delivery) []*sim.Delivery {
				if len(msgs) < 40 {
					msgs = append(msgs, sim.Decode(d.Bytes))
				}
				return []*sim.Delivery{d}
			}
		}})
		order := r.Perm(len(msgs))
		for k, mi := range order {
			m := msgs[mi]
			data, err := m.MarshalBinary()
			if err != nil {
				continue
			}
			if p, fr, txt := vk.Guard(func() { err = reused.UnmarshalBinary(data) }); p {
				t.Violation("protocol.Message|restore-panic|"+fr, "restoring into a reused value panicked: %s", txt)
				break
			}
			t.Obs("evaluations", 1)
			t.Obs("messages_restored_into_a_reused_value", 1)
			if err != nil {
				t.Violation("protocol.Message|restore-failed", "restoring an honest encoding into a reused value failed: %v", err)
				break
			}
			if d := deepDiff(reflect.ValueOf(m), reflect.ValueOf(&reused), "", 0); d != "" {
				t.Violation("protocol.Message|reused-value-keeps-stale-fields|"+stripIdx(d), "after restoring message %d of %d into the same variable it differs from what was sent at %s (previous message: broadcast=%v to=%q)", k+1, len(order), d, msgs[order[prevIdx(k)]].Broadcast, msgs[order[prevIdx(k)]].To)
				break
			}
		}
		t.Distinct("roundtrip|protocol.Message|reused-receive-variable")
	}
	// behavioural use of restored objects together with originals
	if !withCMP {
		ids := w.frost.Ids
		mix := func(m fx.Mat, nm string) {
			snap, err := m.Snapshot()
			if err != nil {
				t.Violation(nm+"|snapshot-failed", "%v", err)
				return
			}
			// stale=snap with a seeded subset => those parties use restored objects
			sub := map[party.ID]bool{}
			for _, id := range ids {
				if r.Bool() {
					sub[id] = true
				}
			}
			sub[ids[0]] = true
			msg := r.Bytes(32)
			S := []party.ID{ids[0], ids[1+r.Intn(2)]}
			S = party.NewIDSlice(S)
			outs, _, err := m.Sign(r, S, msg, snap, sub, fx.Opt{SessionID: r.Bytes(4)})
			if err != nil {
				t.Violation(nm+"|behaviour|sign-start", "%v", err)
				return
			}
			key := m.Shares()[0].GroupKey
			t.Distinct("roundtrip|%s|behaviour-sign", nm)
			judge(t, nm+"|behaviour-sign", outs, key, msg, fmt.Sprintf("%s restored at %v", nm, sub), true)
			// refresh with restored objects at a subset
			mm := mixMat(m, snap, sub)
			if nw, err := mm.Refresh(r, fx.Opt{SessionID: r.Bytes(4)}); err != nil {
				t.Violation(nm+"|behaviour|refresh-failed", "refresh with restored objects at %v: %v", sub, err)
			} else if f, _ := fx.CheckMaterial(r, nw.Shares(), &key, 10); len(f) > 0 {
				t.Violation(nm+"|behaviour|refresh|"+f[0][0], "%s", f[0][1])
			} else {
				t.Distinct("roundtrip|%s|behaviour-refresh", nm)
			}
		}
		mix(w.frost, "frost.Config")
		mix(w.tap, "frost.TaprootConfig")
		// Doerner: restored receiver / sender / both
		for _, which := range []string{"receiver", "sender", "both"} {
			R, S := w.doe.K.R, w.doe.K.S
			if rr, ok := restored["doerner.ConfigReceiver"].(*doerner.ConfigReceiver); ok && which != "sender" {
				R = rr
			}
			if ss, ok := restored["doerner.ConfigSender"].(*doerner.ConfigSender); ok && which != "receiver" {
				S = ss
			}
			msg := r.Bytes(32)
			var outs []fx.Outcome
			var err error
			pnk, fr, txt := vk.Guard(func() {
				_, outs, err = fx.RunTwo(r, w.doe.K.RID, w.doe.K.SID, doerner.SignReceiver(R, w.doe.K.RID, w.doe.K.SID, msg, nil), doerner.SignSender(S, w.doe.K.SID, w.doe.K.RID, msg, nil), true, true, fx.Opt{SessionID: r.Bytes(4)})
			})
			t.Distinct("roundtrip|doerner|behaviour-sign|restored=%s", which)
			if pnk {
				t.Violation("doerner.Config|behaviour-sign-panic|restored="+which+"|"+fr, "signing with a restored Doerner config panicked: %s", txt)
				continue
			}
			if err != nil {
				t.Violation("doerner.Config|behaviour-sign-start|restored="+which, "%v", err)
				continue
			}
			judge(t, "doerner.Config|behaviour-sign|restored="+which, outs, w.doe.Shares()[0].GroupKey, msg, "restored "+which, true)
		}
		// signature
		if s, ok := restored["ecdsa.Signature"].(*ecdsa.Signature); ok {
			okv, _, det := fx.VerifySig(s, w.sigKey, w.sigMsg)
			t.Distinct("roundtrip|ecdsa.Signature|behaviour-verify")
			if !okv {
				t.Violation("ecdsa.Signature|behaviour|restored-invalid", "%s", det)
			}
		}
		return
	}
	// CMP: sign with restored configs at a subset, presign-online with restored presignatures at a subset
	ids := w.cmp.Ids
	sub := map[party.ID]bool{ids[0]: true}
	if r.Bool() {
		sub[ids[2]] = true
	}
	cfgs := map[party.ID]*cmp.Config{}
	for _, id := range ids {
		cfgs[id] = w.cmp.Cfgs[id]
		if sub[id] {
			c := codecs[[]string{"cmp.Config/binary", "cmp.Config/cbor"}[r.Intn(2)]]
			d, _ := c.encode(cfgs[id])
			b, err := c.restore(d)
			if err != nil {
				t.Violation("cmp.Config|restore-failed", "%v", err)
				return
			}
			cfgs[id] = b.(*cmp.Config)
		}
	}
	key := w.cmp.Shares()[0].GroupKey
	msg := r.Bytes(32)
	S := w.signers
	_, outs, err := fx.RunMulti(r, S, func(id party.ID) protocol.StartFunc { return cmp.Sign(cfgs[id], S, msg, nil) }, fx.Opt{SessionID: r.Bytes(4)})
	if err != nil {
		t.Violation("cmp.Config|behaviour|sign-start", "%v", err)
	} else {
		t.Distinct("roundtrip|cmp.Config|behaviour-sign")
		judge(t, "cmp.Config|behaviour-sign", outs, key, msg, fmt.Sprintf("restored at %v", sub), true)
	}
	pre := map[party.ID]*ecdsa.PreSignature{}
	for id, p := range w.presigs {
		pre[id] = p
		if sub[id] || id == S[1] && r.Bool() {
			d, _ := cbor.Marshal(p)
			q := ecdsa.EmptyPreSignature(group)
			if err := cbor.Unmarshal(d, q); err != nil {
				t.Violation("ecdsa.PreSignature|restore-failed", "%v", err)
				return
			}
			pre[id] = q
		}
	}
	_, outs, err = fx.RunMulti(r, S, func(id party.ID) protocol.StartFunc { return cmp.PresignOnline(cfgs[id], pre[id], msg, nil) }, fx.Opt{SessionID: r.Bytes(4)})
	if err != nil {
		t.Violation("ecdsa.PreSignature|behaviour|online-start", "%v", err)
	} else {
		t.Distinct("roundtrip|ecdsa.PreSignature|behaviour-online-sign")
		judge(t, "ecdsa.PreSignature|behaviour-online", outs, key, msg, "restored presignatures", true)
	}
}

// mixMat returns material in which the parties in sub use the objects of snap.
func mixMat(m, snap fx.Mat, sub map[party.ID]bool) fx.Mat {
	switch a := m.(type) {
	case *fx.FrostMat:
		out := &fx.FrostMat{Ids: a.Ids, Th: a.Th, Cfgs: map[party.ID]*frost.Config{}}
		for id, c := range a.Cfgs {
			out.Cfgs[id] = c
			if sub[id] {
				out.Cfgs[id] = snap.(*fx.FrostMat).Cfgs[id]
			}
		}
		return out
	case *fx.TaprootMat:
		out := &fx.TaprootMat{Ids: a.Ids, Th: a.Th, Cfgs: map[party.ID]*frost.TaprootConfig{}}
		for id, c := range a.Cfgs {
			out.Cfgs[id] = c
			if sub[id] {
				out.Cfgs[id] = snap.(*fx.TaprootMat).Cfgs[id]
			}
		}
		return out
	}
	return m
}

func stripIdx(s string) string {
	// drop concrete indices / keys so that the finding key names the field, not the element
	var b strings.Builder
	depth := 0
	for _, c := range s {
		switch {
		case c == '[':
			depth++
			b.WriteString("[]")
		case c == ']':
			depth--
		case depth == 0:
			b.WriteRune(c)
		}
	}
	out := b.String()
	if i := strings.Index(out, " ("); i > 0 {
		out = out[:i]
	}
	return out
}

var errNone = errors.New("")

// sameTree compares two encodings as documents (map order ignored).
func sameTree(a, b []byte) bool {
	ea, e1 := adv.Canonical(a)
	eb, e2 := adv.Canonical(b)
	if e1 != nil || e2 != nil {
		return false
	}
	return bytes.Equal(ea, eb)
}

func c15Refuse(t *vk.T, name string, part, parts int, env vk.Env) {
	r := t.Rng
	needCMP := strings.HasPrefix(name, "cmp.") || name == "ecdsa.PreSignature"
	w := c15Build(t, needCMP)
	if w == nil {
		return
	}
	c := codecs[name]
	obj := objOf(w, name, r)
	data, err := c.encode(obj)
	if err != nil {
		t.Violation(name+"|encode-failed", "%v", err)
		return
	}
	vars, err := adv.Variants(data, 4, true)
	if err != nil {
		t.Inconclusive("cannot parse honest encoding of %s: %v", name, err)
		return
	}
	// semantic corruptions
	vars = append(vars, c15Semantic(name, data, r)...)
	// seeded random corruptions
	nr := env.Pick(40, 2000)
	for k := 0; k < nr; k++ {
		d := append([]byte{}, data...)
		kind := ""
		switch r.Intn(4) {
		case 0:
			d[r.Intn(len(d))] ^= 1 << uint(r.Intn(8))
			kind = "bitflip"
		case 1:
			d = d[:r.Intn(len(d))]
			kind = "truncated"
		case 2:
			d = r.Bytes(1 + r.Intn(64))
			kind = "random-bytes"
		case 3:
			i := r.Intn(len(d))
			d = append(append(append([]byte{}, d[:i]...), r.Bytes(1+r.Intn(4))...), d[i:]...)
			kind = "inserted"
		}
		vars = append(vars, adv.Variant{Path: "*", Kind: "raw", Mutation: "random-" + kind, Data: d})
	}
	for vi, v := range vars {
		if vi%parts != part {
			continue
		}
		t.Note(name+"|"+v.Path+"|"+v.Mutation, fmt.Sprintf("%x", trunc(v.Data, 96)))
		var back interface{}
		var rerr error
		pnk, fr, txt := vk.Guard(func() { back, rerr = c.restore(v.Data) })
		t.Obs("evaluations", 1)
		verdict := "error"
		switch {
		case pnk:
			verdict = "panic"
			t.Violation(name+"|restore-panic|"+fr, "restoring %s with %s at %s panicked: %s", name, v.Mutation, v.Path, txt)
		case rerr != nil:
		default:
			rule := ""
			if p2, fr2, txt2 := vk.Guard(func() { rule = c.rule(back) }); p2 {
				rule = "unusable-object(" + fr2 + ")"
				_ = txt2
			}
			if rule == "" {
				if cc, ok := back.(*cmp.Config); ok {
					// every entry of the encoded party table must be present in the restored table (duplicates must be refused, not collapsed)
					if l := cmpEntries(v.Data); l >= 0 && l != len(cc.Public) {
						rule = "duplicate-or-dropped-party"
					}
				}
			}
			if rule == "" {
				verdict = "valid-object"
			} else {
				verdict = "invalid:" + rule
				t.Violation(name+"|restore-accepts|"+rule, "restoring %s with %s at %s returned no error but an object breaking rule %q", name, v.Mutation, v.Path, rule)
			}
		}
		t.Obs("refusal|"+strings.SplitN(verdict, ":", 2)[0], 1)
		if v.Kind != "raw" {
			t.Distinct("refuse|%s|%s|%s", name, v.Path, v.Mutation)
		} else if vi%10 == 0 {
			t.Distinct("refuse|%s|raw|%s", name, v.Mutation)
		}
	}
	if part == 0 {
		t.Sample(map[string]any{"type": name, "variants": len(vars), "example_path": vars[len(vars)/3].Path, "example_mutation": vars[len(vars)/3].Mutation})
	}
}

// cmpEntries returns the number of entries in the encoded party table of a cmp config (-1 if not determinable).
func cmpEntries(data []byte) int {
	root, err := adv.Decode(data)
	if err != nil {
		return -1
	}
	if w, ok := root.(*adv.Wrapped); ok {
		root = w.Doc
	}
	m, ok := root.(map[interface{}]interface{})
	if !ok {
		return -1
	}
	arr, ok := m["Public"].([]interface{})
	if !ok {
		return -1
	}
	return len(arr)
}

func trunc(b []byte, n int) []byte {
	if len(b) > n {
		return b[:n]
	}
	return b
}

// c15Semantic crafts corruptions that keep the encoding well-formed but break a validity rule.
// a 1023-bit safe prime (p = 2q+1, q prime), generated once offline with crypto/rand.Prime; re-validated by c15Semantic's users through the rule oracle
const c15SafePrime1023 = "7b5b93abac8b6f40ccc86b52e2fdd3332dd61580ab6da50ddb4cd4853a0a5e1ad6b9692a6d042dd032d779640399c8969a84e74c20cd49679d6efac2c8ba3970e724aa91207112ec50aad8d86f519a77a04ecf5071083d2bc34173b35299f6778eed386dba9574d9acc287b05548b4e73fd947c4fb79d04bbe4ffc66dc104cd7"

func c15Semantic(name string, data []byte, r *vk.Rand) []adv.Variant {
	root, err := adv.Decode(data)
	if err != nil {
		return nil
	}
	var out []adv.Variant
	sites := adv.Sites(root, 8)
	identity := make([]byte, 33) // the library's encoding of the identity point
	identity[0] = 2
	offCurve := append([]byte{2}, make([]byte, 32)...)
	offCurve[32] = 5
	for _, s := range sites {
		node := adv.Get(root, s)
		add := func(mut string, nv interface{}) {
			b, err := adv.Encode(adv.With(root, s, nv, false))
			if err == nil {
				out = append(out, adv.Variant{Path: s.Path, Kind: "semantic", Mutation: mut, Data: b})
			}
		}
		switch x := node.(type) {
		case []byte:
			switch len(x) {
			case 33:
				add("point-identity-encoding", identity)
				add("point-off-curve", offCurve)
				add("point-x-ge-p", append([]byte{2}, bytes.Repeat([]byte{0xff}, 32)...))
			case 32:
				add("scalar-zero", make([]byte, 32))
				add("scalar-ge-q", bytes.Repeat([]byte{0xff}, 32))
			case 128, 256:
				ev := append([]byte{}, x...)
				ev[len(ev)-1] &^= 1
				add("number-even", ev)
				add("number-short", append([]byte{}, x[1:]...))
				add("number-oversize", append([]byte{1}, x...))
				add("number-one", []byte{1})
				add("number-zero", []byte{0})
				p2 := new(big.Int).Add(new(big.Int).SetBytes(x), big.NewInt(2)).Bytes()
				add("number-plus2", p2)
				if len(x) == 128 {
					// well-formed but too short primes (p = 2q+1 with q prime), stored on the full 128-byte width
					pad := func(b []byte) []byte { return append(make([]byte, 128-len(b)), b...) }
					sp, _ := new(big.Int).SetString(c15SafePrime1023, 16)
					add("prime-1023-bit-safe-padded", pad(sp.Bytes()))
					add("prime-7-padded", pad([]byte{7}))
					add("prime-23-padded", pad([]byte{23}))
				}
			}
		case uint64:
			if strings.HasSuffix(s.Path, "Threshold") {
				for _, v := range []uint64{2, 3, 4, 100, 1 << 31, 1<<32 - 1, 1 << 32} {
					add(fmt.Sprintf("threshold=%d", v), v)
				}
				add("threshold=-1", int64(-1))
			}
		}
	}
	// another party's entry renamed to the owner's id (and the owner's entry repeated)
	if m, ok := root.(map[interface{}]interface{}); ok {
		if own, ok := m["ID"].(string); ok {
			if arr, ok := m["Public"].([]interface{}); ok {
				for i, e := range arr {
					em, ok := e.(map[interface{}]interface{})
					if !ok {
						continue
					}
					if id, _ := em["ID"].(string); id != own {
						for _, s := range sites {
							if s.Path == fmt.Sprintf("/Public[%d]/ID", i) {
								if b, err := adv.Encode(adv.With(root, s, own, false)); err == nil {
									out = append(out, adv.Variant{Path: "/Public[other]/ID", Kind: "semantic", Mutation: "renamed-to-owner", Data: b})
								}
							}
						}
					} else {
						for _, s := range sites {
							if s.Path == "/Public" {
								na := append(append([]interface{}{}, arr...), e)
								if b, err := adv.Encode(adv.With(root, s, na, false)); err == nil {
									out = append(out, adv.Variant{Path: "/Public", Kind: "semantic", Mutation: "owner-entry-repeated", Data: b})
								}
							}
						}
					}
				}
			}
		}
	}
	// a too-short prime together with owner Pedersen parameters that suit the shrunken modulus (two cooperating
	// fields: the owner's s and t are only checked against the modulus recomputed from the stored primes)
	if m, ok := root.(map[interface{}]interface{}); ok {
		own, _ := m["ID"].(string)
		var sP, sS, sT *adv.Site
		for i := range sites {
			sx := sites[i]
			if sx.Path == "/P" {
				sP = &sites[i]
			}
			if strings.HasPrefix(sx.Path, "/Public[") && (strings.HasSuffix(sx.Path, "/S") || strings.HasSuffix(sx.Path, "/T")) {
				idPath := sx.Path[:strings.LastIndex(sx.Path, "/")] + "/ID"
				for _, sy := range sites {
					if sy.Path == idPath {
						if id, _ := adv.Get(root, sy).(string); id == own {
							if strings.HasSuffix(sx.Path, "/S") {
								sS = &sites[i]
							} else {
								sT = &sites[i]
							}
						}
					}
				}
			}
		}
		if sP != nil && sS != nil && sT != nil {
			pad := func(b []byte) []byte { return append(make([]byte, 128-len(b)), b...) }
			sp, _ := new(big.Int).SetString(c15SafePrime1023, 16)
			for _, pv := range []struct {
				name string
				p    []byte
			}{{"prime-1023-bit-safe-padded+owner-s=4,t=9", pad(sp.Bytes())}, {"prime-7-padded+owner-s=4,t=9", pad([]byte{7})}} {
				r2 := adv.With(adv.With(adv.With(root, *sP, pv.p, false), *sS, []byte{4}, false), *sT, []byte{9}, false)
				if b, err := adv.Encode(r2); err == nil {
					out = append(out, adv.Variant{Path: "/P+owner/S+owner/T", Kind: "semantic", Mutation: pv.name, Data: b})
				}
			}
		}
	}
	// s = t for Pedersen entries; duplicate party ids
	for _, s := range sites {
		if strings.HasSuffix(s.Path, "/T") {
			sp := strings.TrimSuffix(s.Path, "/T") + "/S"
			for _, s2 := range sites {
				if s2.Path == sp {
					b, err := adv.Encode(adv.With(root, s, adv.Get(root, s2), false))
					if err == nil {
						out = append(out, adv.Variant{Path: s.Path, Kind: "semantic", Mutation: "t-equals-s", Data: b})
					}
				}
			}
		}
		if strings.HasSuffix(s.Path, "]/ID") {
			// give every public entry the same id
			b, err := adv.Encode(adv.With(root, s, "dup", false))
			if err == nil {
				out = append(out, adv.Variant{Path: s.Path, Kind: "semantic", Mutation: "id-renamed", Data: b})
			}
		}
	}
	return out
}
