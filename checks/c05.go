package checks

import (
	"bytes"
	"math/big"
	"runtime"
	"fmt"
	"sort"
	"strings"
	"time"

	"github.com/fxamacker/cbor/v2"
	"github.com/taurusgroup/multi-party-sig/internal/round"
	"github.com/taurusgroup/multi-party-sig/pkg/party"
	"github.com/taurusgroup/multi-party-sig/pkg/protocol"
	"github.com/taurusgroup/multi-party-sig/protocols/cmp"
	"github.com/taurusgroup/multi-party-sig/protocols/doerner"
	"github.com/taurusgroup/multi-party-sig/protocols/frost"
	"github.com/taurusgroup/multi-party-sig/verif/adv"
	"github.com/taurusgroup/multi-party-sig/verif/fx"
	"github.com/taurusgroup/multi-party-sig/verif/sim"
	"github.com/taurusgroup/multi-party-sig/verif/vk"
)

const (
	c05CPUBudgetNs   = int64(60e9)
	c05AllocBudget   = uint64(1 << 30)
	c05AcceptTimeout = 3 * time.Minute
)

func init() {
	vk.Register(&vk.Check{
		ID:    "C05",
		Level: "fault_enumeration",
		Rule: "L1 (boundary): for every protocol the honest transcript is recorded; every message a victim receives is replaced - at the moment it would be delivered (early: possibly queued for a later round) or when it is the last message the victim waits for (late) - by one hostile variant: every node of its CBOR tree x structural malformations (deleted, null, wrong major type, empty, 1/3/31/33-byte, 4 KiB, 1 MiB, length prefixes 0 / 0xFFFFFFFF, collections of 0 / n+-1 / 100000 elements, huge and negative integers, indefinite / over-declared / 60-deep encodings, unknown keys), header malformations (recipient, sender, round, broadcast flag, session tag, protocol, payload, echo hash), well-formed but wrong values (another valid scalar / point / number in place of the right one) and seeded random bytes / bit flips; the session then runs to quiescence through the real handlers; L2 (CMP, throughput): the round object of a victim in the target state is fed thousands of hostile payloads through the handler's decode + verify/store path, hits are re-executed at L1; restoring wire messages and stored material from arbitrary bytes is fuzzed as well, and every number / byte field of every stored type is replaced by oversized values (8 KiB and 64 KiB numbers that are 3 mod 4 without small factors, 64 KiB of 0xff, 1 MiB) with CPU and allocation measured per restore call; oracles per Accept call: no panic / process death, CPU <= 60 s, allocation <= 1 GiB, no blocked call, and a legal post-state (never value and error; a terminal error implies a closed channel; a closed channel implies a terminal result); " +
			"distinct non-trivial = distinct (protocol, round, message kind, field path, malformation, timing) cases executed",
		MinDistinct:  300,
		Assumptions:  []string{"CPU and allocation are measured per call for the whole process (one case at a time per child); RLIMIT_AS 12 GiB turns allocation bombs into attributed process deaths", "the watchdog firing without a provable block or CPU overrun is inconclusive"},
		Cases:        c05Cases,
		CaseTimeoutS: 3000,
		MemLimitMB:   12288,
	})
}

// target identifies one message of the honest transcript as seen by the victim.
type c05Target struct {
	from  party.ID
	round int
	bcast bool
}

func (x c05Target) String() string {
	k := "p2p"
	if x.bcast {
		k = "bcast"
	}
	return fmt.Sprintf("r%d/%s", x.round, k)
}

type c05Variant struct {
	class string // structural | header | random
	path  string
	mut   string
	build func(orig *protocol.Message, r *vk.Rand) *protocol.Message
}

func c05HeaderVariants(c *camp, victim, sender party.ID, final int) []c05Variant {
	var vs []c05Variant
	add := func(name string, f func(m *protocol.Message, r *vk.Rand)) {
		vs = append(vs, c05Variant{class: "header", path: "header", mut: name, build: func(o *protocol.Message, r *vk.Rand) *protocol.Message {
			m := *o
			m.Data = append([]byte{}, o.Data...)
			f(&m, r)
			return &m
		}})
	}
	var other party.ID
	for _, id := range c.ids {
		if id != victim && id != sender {
			other = id
		}
	}
	add("to-empty", func(m *protocol.Message, r *vk.Rand) { m.To = "" })
	add("to-other-party", func(m *protocol.Message, r *vk.Rand) { m.To = other })
	add("to-unknown", func(m *protocol.Message, r *vk.Rand) { m.To = "nobody" })
	add("from-victim", func(m *protocol.Message, r *vk.Rand) { m.From = victim })
	add("from-unknown", func(m *protocol.Message, r *vk.Rand) { m.From = "stranger" })
	add("from-empty", func(m *protocol.Message, r *vk.Rand) { m.From = "" })
	if other != "" {
		add("from-other-honest", func(m *protocol.Message, r *vk.Rand) { m.From = other })
	}
	for _, rn := range []int{0, 1, -1, +1, +2, final + 1, 65535} {
		rn := rn
		add(fmt.Sprintf("round=%+d", rn), func(m *protocol.Message, r *vk.Rand) {
			switch rn {
			case 0, 1, 65535:
				m.RoundNumber = round.Number(rn)
			default:
				if rn == final+1 {
					m.RoundNumber = round.Number(final + 1)
				} else {
					m.RoundNumber = round.Number(int(m.RoundNumber) + rn)
				}
			}
		})
	}
	add("broadcast-flag-flipped", func(m *protocol.Message, r *vk.Rand) { m.Broadcast = !m.Broadcast })
	add("ssid-nil", func(m *protocol.Message, r *vk.Rand) { m.SSID = nil })
	add("ssid-bitflip", func(m *protocol.Message, r *vk.Rand) { m.SSID = append([]byte{}, m.SSID...); m.SSID[0] ^= 1 })
	add("ssid-1MiB", func(m *protocol.Message, r *vk.Rand) { m.SSID = bytes.Repeat([]byte{7}, 1<<20) })
	add("protocol-wrong", func(m *protocol.Message, r *vk.Rand) { m.Protocol += "x" })
	add("protocol-empty", func(m *protocol.Message, r *vk.Rand) { m.Protocol = "" })
	add("data-nil", func(m *protocol.Message, r *vk.Rand) { m.Data = nil })
	add("data-empty", func(m *protocol.Message, r *vk.Rand) { m.Data = []byte{} })
	add("data-cbor-null", func(m *protocol.Message, r *vk.Rand) { m.Data = []byte{0xf6} })
	add("data-1MiB-garbage", func(m *protocol.Message, r *vk.Rand) { m.Data = r.Bytes(1 << 20) })
	add("echo-hash-nil", func(m *protocol.Message, r *vk.Rand) { m.BroadcastVerification = nil })
	add("echo-hash-wrong", func(m *protocol.Message, r *vk.Rand) { m.BroadcastVerification = r.Bytes(64) })
	add("echo-hash-1MiB", func(m *protocol.Message, r *vk.Rand) { m.BroadcastVerification = bytes.Repeat([]byte{9}, 1<<20) })
	add("abort-notice(round-0)", func(m *protocol.Message, r *vk.Rand) { m.RoundNumber = 0; m.Data = []byte("boom"); m.To = "" })
	return vs
}

func c05DataVariants(data []byte, r *vk.Rand, randomCount int) []c05Variant {
	var vs []c05Variant
	structural, err := adv.Variants(data, 3, true)
	if err == nil {
		for _, sv := range structural {
			sv := sv
			vs = append(vs, c05Variant{class: "structural", path: sv.Path, mut: sv.Mutation, build: func(o *protocol.Message, _ *vk.Rand) *protocol.Message {
				m := *o
				m.Data = sv.Data
				return &m
			}})
		}
	}
	// well-formed but wrong values (another valid scalar / point / number in place of the right one): every decoder
	// and range check passes, only the last verification can notice
	if root, err := adv.Decode(data); err == nil {
		for _, site := range adv.Sites(root, 3) {
			site := site
			node := adv.Get(root, site)
			for _, name := range adv.TypedNames(node) {
				name := name
				if name == "from-transcript" {
					continue
				}
				vs = append(vs, c05Variant{class: "well-formed", path: site.Path, mut: "typed-" + name, build: func(o *protocol.Message, r *vk.Rand) *protocol.Message {
					m := *o
					rt, err := adv.Decode(o.Data)
					if err != nil {
						return &m
					}
					// the site was found in the recorded transcript; this session's message has other random bytes and
					// may not contain it (e.g. a random byte string that happened to parse as a nested document)
					func() {
						defer func() { _ = recover() }()
						nv, ok := adv.ApplyTyped(adv.Get(rt, site), name, nil, r)
						if !ok {
							return
						}
						if b, err := adv.Encode(adv.With(rt, site, nv, false)); err == nil {
							m.Data = b
						}
					}()
					return &m
				}})
			}
		}
	}
	for k := 0; k < randomCount; k++ {
		kind := []string{"bitflip", "truncate", "random-bytes", "insert", "byte-ff"}[k%5]
		vs = append(vs, c05Variant{class: "random", path: "*", mut: "random-" + kind, build: func(o *protocol.Message, r *vk.Rand) *protocol.Message {
			m := *o
			d := append([]byte{}, o.Data...)
			switch kind {
			case "bitflip":
				for j := 0; j < 1+r.Intn(3); j++ {
					d[r.Intn(len(d))] ^= 1 << uint(r.Intn(8))
				}
			case "truncate":
				d = d[:r.Intn(len(d))]
			case "random-bytes":
				d = r.Bytes(1 + r.Intn(200))
			case "insert":
				i := r.Intn(len(d))
				d = append(append(append([]byte{}, d[:i]...), r.Bytes(1+r.Intn(8))...), d[i:]...)
			case "byte-ff":
				d[r.Intn(len(d))] = 0xff
			}
			m.Data = d
			return &m
		}})
	}
	return vs
}

// c05Run runs one session in which the victim's target message is replaced by a hostile variant.
// c05Run returns false when the process is no longer fit for further measurements (a call never returned: its
// goroutine may keep spinning or holding a lock).
func c05Run(t *vk.T, c *camp, victim party.ID, tg c05Target, v c05Variant, timing string, keyPrefix string) bool {
	r := t.Rng
	injected := false
	var maxCPU int64
	var maxAlloc uint64
	desc := fmt.Sprintf("%s victim=%q target=%s from %q variant=%s/%s/%s timing=%s", c.name, victim, tg, tg.from, v.class, v.path, v.mut, timing)
	t.Note(keyPrefix+"|"+tg.String()+"|"+v.path+"|"+v.mut, desc)
	n, err := c.start(t, r.Bytes(4), func(n *sim.Net) {
		n.AcceptWatchdog = c05AcceptTimeout
		n.Measure = func(p *sim.Party, m *protocol.Message, cpu int64, alloc uint64) {
			if cpu > maxCPU {
				maxCPU = cpu
			}
			if alloc > maxAlloc {
				maxAlloc = alloc
			}
		}
		isTarget := func(d *sim.Delivery) bool {
			return d.Target.ID == victim && d.From == tg.from && d.Round == tg.round && d.Bcast == tg.bcast
		}
		n.OnDeliver = func(_ *sim.Net, d *sim.Delivery) []*sim.Delivery {
			if injected || !isTarget(d) {
				return []*sim.Delivery{d}
			}
			injected = true
			hm := v.build(sim.Decode(d.Bytes), r)
			b, err := hm.MarshalBinary()
			if err != nil {
				return []*sim.Delivery{d}
			}
			c := *d
			c.Bytes = b
			c.Tag = "hostile"
			return []*sim.Delivery{&c}
		}
		if timing == "late" {
			n.Sched = func(nn *sim.Net) int {
				for i, d := range nn.Pending {
					if !isTarget(d) || injected {
						return i
					}
				}
				return 0
			}
		}
	})
	if err != nil {
		t.Inconclusive("%s: start failed: %v", desc, err)
		return true
	}
	pnk, fr, txt := vk.Guard(func() { n.Run() })
	t.Obs("evaluations", 1)
	t.ObsMax("cpu_ms_per_accept", maxCPU/1e6)
	t.ObsMax("alloc_MiB_per_accept", int64(maxAlloc>>20))
	if !injected {
		t.Obs("targets_never_reached", 1)
		return true
	}
	t.Distinct("%s|%s|%s|%s|%s|%s", c.name, tg, v.class, v.path, v.mut, timing)
	t.Obs("class|"+v.class, 1)
	key := keyPrefix + "|" + tg.String() + "|" + v.class
	if pnk && fr == "unknown" {
		// no library frame on the panicking stack: the harness itself failed, nothing was decided
		t.Inconclusive("%s: harness panic: %s", desc, truncStr(txt, 200))
		return true
	}
	if pnk {
		t.Violation(c.name+"|panic|"+fr, "%s: a participant panicked in %s: %s", desc, fr, truncStr(txt, 200))
		return true
	}
	if n.AcceptHang != "" {
		blocked := strings.Contains(n.AcceptHangDump, "pkg/protocol.(*MultiHandler).Accept") || strings.Contains(n.AcceptHangDump, "pkg/protocol.(*TwoPartyHandler).Accept")
		switch {
		case n.AcceptHangCPU > c05CPUBudgetNs:
			t.Violation(c.name+"|cpu-exhaustion|"+tg.String()+"|"+v.mut, "%s: an Accept call burnt %d CPU-s without returning", desc, n.AcceptHangCPU/1e9)
		case blocked && n.AcceptHangCPU < 2e9:
			t.Violation(c.name+"|accept-blocked|"+tg.String()+"|"+v.mut, "%s: an Accept call is parked and never returns", desc)
		default:
			t.Inconclusive("%s: watchdog fired (%s)", desc, n.AcceptHang)
		}
		return false
	}
	if maxCPU > c05CPUBudgetNs {
		t.Violation(c.name+"|cpu-exhaustion|"+tg.String()+"|"+v.mut, "%s: an Accept call used %d CPU-s", desc, maxCPU/1e9)
	}
	if maxAlloc > c05AllocBudget {
		t.Violation(c.name+"|memory-exhaustion|"+tg.String()+"|"+v.path+"|"+v.mut, "%s: an Accept call allocated %d MiB", desc, maxAlloc>>20)
	}
	// post-state legality of every party
	for _, p := range n.Parties {
		n.Drain(p)
		val, err := p.H.Result()
		notFinished := err != nil && strings.Contains(err.Error(), "protocol: not finished")
		switch {
		case val != nil && err != nil:
			t.Violation(c.name+"|post-state|value-and-error", "%s: %q reports both a value and an error", desc, p.ID)
		case err != nil && !notFinished && !p.Closed:
			t.Violation(c.name+"|post-state|error-but-channel-open", "%s: %q ended with %q but its outgoing channel is not closed", desc, p.ID, truncStr(err.Error(), 80))
		case p.Closed && notFinished:
			t.Violation(c.name+"|post-state|closed-but-not-finished", "%s: %q closed its outgoing channel while Result says not finished", desc, p.ID)
		}
	}
	_ = key
	return true
}

func c05Cases(env vk.Env) []vk.Case {
	var cs []vk.Case
	for _, p := range cheapProtos {
		parts := env.Pick(3, 12)
		for part := 0; part < parts; part++ {
			p, part := p, part
			cs = append(cs, vk.Case{ID: fmt.Sprintf("L1/%s/part%d", p, part), Run: func(t *vk.T) { c05L1(t, p, part, parts, env.Pick(260, 0), env) }})
		}
	}
	for _, p := range cmpProtos {
		parts := env.Pick(2, 10)
		for part := 0; part < parts; part++ {
			p, part := p, part
			cs = append(cs, vk.Case{ID: fmt.Sprintf("L1/%s/part%d", p, part), Run: func(t *vk.T) { c05L1(t, p, part, parts, env.Pick(5, 40), env) }})
			cs = append(cs, vk.Case{ID: fmt.Sprintf("L2/%s/part%d", p, part), Run: func(t *vk.T) { c05L2(t, p, part, parts, env.Pick(500, 5000)) }})
		}
	}
	for _, p := range cmpProtos {
		for tgt := 0; tgt < env.Pick(4, 12); tgt++ {
			p, tgt := p, tgt
			cs = append(cs, vk.Case{ID: fmt.Sprintf("pool-null/%s/target%d", p, tgt), Run: func(t *vk.T) { c05PoolNull(t, p, tgt) }})
		}
	}
	cs = append(cs, vk.Case{ID: "restore-resource/cheap", Run: func(t *vk.T) { c05RestoreResource(t, false) }})
	cs = append(cs, vk.Case{ID: "restore-resource/cmp", Run: func(t *vk.T) { c05RestoreResource(t, true) }})
	for i := 0; i < env.Pick(2, 12); i++ {
		i := i
		cs = append(cs, vk.Case{ID: fmt.Sprintf("restore/%d", i), Run: func(t *vk.T) { c05Restore(t, i, env.Pick(1500, 20000)) }})
	}
	return cs
}

// c05Transcript records what the victim receives in an honest run.
func c05Transcript(t *vk.T, c *camp, victim party.ID) (map[c05Target][]byte, int, error) {
	got := map[c05Target][]byte{}
	final := 0
	n, err := c.start(t, t.Rng.Bytes(4), func(n *sim.Net) {
		n.OnDeliver = func(_ *sim.Net, d *sim.Delivery) []*sim.Delivery {
			if d.Target.ID == victim && d.Round > 0 {
				k := c05Target{d.From, d.Round, d.Bcast}
				if _, ok := got[k]; !ok {
					got[k] = sim.Decode(d.Bytes).Data
				}
			}
			if d.Round > final {
				final = d.Round
			}
			return []*sim.Delivery{d}
		}
	})
	if err != nil {
		return nil, 0, err
	}
	n.Run()
	if !fx.AllDone(fx.Outcomes(n)) {
		return nil, 0, fmt.Errorf("honest run incomplete: %s", fx.Describe(fx.Outcomes(n)))
	}
	return got, final, nil
}

func c05L1(t *vk.T, proto string, part, parts, budget int, env vk.Env) {
	r := t.Rng
	c := buildCamp(t, proto, 3)
	if c == nil {
		return
	}
	defer c.close()
	victim := c.ids[part%len(c.ids)]
	tr, final, err := c05Transcript(t, c, victim)
	if err != nil {
		t.Violation(proto+"|honest-run-failed", "%v", err)
		return
	}
	var targets []c05Target
	for k := range tr {
		targets = append(targets, k)
	}
	sort.Slice(targets, func(i, j int) bool { return targets[i].String()+string(targets[i].from) < targets[j].String()+string(targets[j].from) })
	type job struct {
		tg     c05Target
		v      c05Variant
		timing string
	}
	var jobs []job
	seenKind := map[string]bool{}
	for _, tg := range targets {
		// one sender per (round, kind) is enough for the structural lattice; headers are tried for every sender
		kindKey := tg.String()
		vs := c05HeaderVariants(c, victim, tg.from, final)
		if !seenKind[kindKey] {
			seenKind[kindKey] = true
			vs = append(vs, c05DataVariants(tr[tg], r, env.Pick(10, 60))...)
		}
		for _, v := range vs {
			for _, tm := range []string{"early", "late"} {
				jobs = append(jobs, job{tg, v, tm})
			}
		}
	}
	t.Obs("L1_lattice_size|"+proto, int64(len(jobs)))
	var mine []job
	for i, j := range jobs {
		if i%parts == part {
			mine = append(mine, j)
		}
	}
	if budget > 0 && len(mine) > budget {
		perm := r.Perm(len(mine))
		pick := make([]job, 0, budget)
		for _, i := range perm[:budget] {
			pick = append(pick, mine[i])
		}
		mine = pick
	}
	for ji, j := range mine {
		if !c05Run(t, c, victim, j.tg, j.v, j.timing, proto) {
			t.Obs("cases_cut_short_after_a_call_that_never_returned", 1)
			break
		}
		if ji == 0 && part == 0 {
			t.Sample(map[string]any{"level": "L1", "protocol": proto, "victim": string(victim), "target": j.tg.String(), "variant": j.v.class + "/" + j.v.path + "/" + j.v.mut, "timing": j.timing})
		}
	}
}

// c05L2 feeds hostile payloads to the round object of a victim in the target state.
func c05L2(t *vk.T, proto string, part, parts, budget int) { c05L2x(t, proto, part, parts, budget, "", -1) }

// c05PoolNull: every target state of a CMP protocol running WITH a worker pool is fed the payloads in which one
// field is CBOR null (the shape that makes verification code panic, possibly inside a pooled task); the submitting
// call must still return.
func c05PoolNull(t *vk.T, proto string, target int) {
	campForcePool = true
	defer func() { campForcePool = false }()
	c05L2x(t, proto, 0, 1, 60, "null", target)
}

func c05L2x(t *vk.T, proto string, part, parts, budget int, onlyMut string, target int) {
	r := t.Rng
	c := buildCamp(t, proto, 3)
	if c == nil {
		return
	}
	defer c.close()
	victim := c.ids[part%len(c.ids)]
	tr, _, err := c05Transcript(t, c, victim)
	if err != nil {
		t.Violation(proto+"|honest-run-failed", "%v", err)
		return
	}
	var targets []c05Target
	for k := range tr {
		targets = append(targets, k)
	}
	sort.Slice(targets, func(i, j int) bool { return targets[i].String()+string(targets[i].from) < targets[j].String()+string(targets[j].from) })
	seen := map[string]bool{}
	var uniq []c05Target
	for _, tg := range targets {
		if !seen[tg.String()] {
			seen[tg.String()] = true
			uniq = append(uniq, tg)
		}
	}
	if len(uniq) == 0 {
		return
	}
	tg := uniq[part%len(uniq)]
	if target >= 0 {
		if target >= len(uniq) {
			return
		}
		tg = uniq[target]
	}
	// bring the victim to the state in which the target is the only message it still waits for
	var vh protocol.Handler
	held := false
	n, err := c.start(t, r.Bytes(4), func(n *sim.Net) {
		isTarget := func(d *sim.Delivery) bool {
			return d.Target.ID == victim && d.From == tg.from && d.Round == tg.round && d.Bcast == tg.bcast
		}
		n.Sched = func(nn *sim.Net) int {
			for i, d := range nn.Pending {
				if !isTarget(d) {
					return i
				}
			}
			return -1
		}
		n.OnDeliver = func(_ *sim.Net, d *sim.Delivery) []*sim.Delivery {
			if isTarget(d) {
				held = true
				return nil // the session stops here
			}
			return []*sim.Delivery{d}
		}
	})
	if err != nil {
		t.Inconclusive("start: %v", err)
		return
	}
	n.Run()
	vh = n.Party(victim).H
	rv, num := roundOf(vh)
	if !held || !rv.IsValid() {
		t.Inconclusive("%s: could not reach the target state for %s", proto, tg)
		return
	}
	sess, ok := rv.Interface().(round.Session)
	if !ok || num != tg.round {
		// two-party handlers keep their round in another field; L2 is only used for the multi-party CMP protocols
		t.Obs("L2_state_not_at_target_round", 1)
		if !ok {
			return
		}
	}
	vs := c05DataVariants(tr[tg], r, budget/4)
	if onlyMut != "" {
		var f []c05Variant
		for _, v := range vs {
			if v.mut == onlyMut {
				f = append(f, v)
			}
		}
		vs = f
	}
	perm := r.Perm(len(vs))
	if len(perm) > budget {
		perm = perm[:budget]
	}
	var hits []c05Variant
	for _, i := range perm {
		v := vs[i]
		hm := v.build(&protocol.Message{Data: tr[tg]}, r)
		t.Note(proto+"|L2|"+tg.String()+"|"+v.path+"|"+v.mut, "")
		var cpu0 = time.Now()
		var pnk bool
		var fr string
		callDone := make(chan struct{})
		go func() {
			defer close(callDone)
			pnk, fr, _ = c05L2Call(sess, tg, victim, hm)
		}()
		blockedCall := false
	waitCall:
		for k := 0; ; k++ {
			select {
			case <-callDone:
				break waitCall
			case <-time.After(2 * time.Second):
				if k < 30 {
					continue // CMP verification legitimately takes seconds
				}
				c1 := sim.CPUNanos()
				time.Sleep(3 * time.Second)
				buf := make([]byte, 1<<20)
				dump := string(buf[:runtime.Stack(buf, true)])
				idle := sim.CPUNanos()-c1 < 3e8
				if idle && strings.Contains(dump, "pkg/pool.(*Pool).Parallelize") {
					blockedCall = true
					break waitCall
				}
				if k > 300 {
					t.Inconclusive("%s: L2 call on %s %s/%s still active after 10 min", proto, tg, v.path, v.mut)
					return
				}
			}
		}
		if blockedCall {
			t.Violation(proto+"|call-blocked-in-pool|"+tg.String(), "%s: verifying a %s payload with %s=%s never returns: the caller is parked in Pool.Parallelize while the process is idle (a pooled task ended without notifying it)", proto, tg, v.path, v.mut)
			return
		}
		t.Obs("evaluations", 1)
		t.Obs("L2_payloads", 1)
		t.Distinct("%s|L2|%s|%s|%s|%s", proto, tg, v.class, v.path, v.mut)
		if time.Since(cpu0) > 100*time.Second {
			hits = append(hits, v)
		}
		if pnk {
			t.Obs("L2_hits|"+fr, 1)
			if len(hits) < 12 {
				hits = append(hits, v)
			}
		}
	}
	// an L2 hit only counts when it reproduces at the boundary
	reported := map[string]bool{}
	for _, v := range hits {
		k := v.path + "/" + v.mut
		if reported[k] {
			continue
		}
		reported[k] = true
		c05Run(t, c, victim, tg, v, "late", proto)
		t.Obs("L2_hits_replayed_at_L1", 1)
	}
	if part == 0 {
		t.Sample(map[string]any{"level": "L2", "protocol": proto, "victim": string(victim), "target": tg.String(), "payloads": len(perm), "hits_replayed_at_boundary": len(reported)})
	}
}

// c05L2Call applies the handler's decode + verify/store path to one payload on the victim's round object.
func c05L2Call(sess round.Session, tg c05Target, victim party.ID, hm *protocol.Message) (bool, string, string) {
	return vk.Guard(func() {
		var content round.Content
		if tg.bcast {
			b, ok := sess.(round.BroadcastRound)
			if !ok {
				return
			}
			content = b.BroadcastContent()
			if err := cbor.Unmarshal(hm.Data, content); err != nil {
				return
			}
			_ = b.StoreBroadcastMessage(round.Message{From: tg.from, To: "", Content: content, Broadcast: true})
			return
		}
		content = sess.MessageContent()
		if content == nil {
			return
		}
		if err := cbor.Unmarshal(hm.Data, content); err != nil {
			return
		}
		_ = sess.VerifyMessage(round.Message{From: tg.from, To: victim, Content: content})
	})
}

// c05Restore fuzzes the decoders of wire messages and stored material with arbitrary bytes.
func c05Restore(t *vk.T, i, count int) {
	r := t.Rng
	ids := fx.IDs(r, 0, 3)
	fm, err := fx.NewFrostMat(r, ids, 1, fx.Opt{})
	if err != nil {
		t.Inconclusive("%v", err)
		return
	}
	n, _, _ := fx.RunMulti(r, ids, func(id party.ID) protocol.StartFunc { return frost.Sign(fm.Cfgs[id], ids, []byte("m")) }, fx.Opt{NoRun: true})
	n.DrainAll()
	var seeds [][]byte
	for _, d := range n.Pending {
		seeds = append(seeds, d.Bytes)
	}
	fb, _ := cbor.Marshal(fm.Cfgs[ids[0]])
	seeds = append(seeds, fb)
	decoders := map[string]func(b []byte){
		"protocol.Message": func(b []byte) { m := &protocol.Message{}; _ = m.UnmarshalBinary(b); _ = m.Hash(); _ = m.String(); _ = m.IsFor("a") },
		"frost.Config":     func(b []byte) { c := frost.EmptyConfig(group); _ = cbor.Unmarshal(b, c) },
		"frost.TaprootConfig": func(b []byte) {
			c := &frost.TaprootConfig{}
			_ = cbor.Unmarshal(b, c)
		},
		"cmp.Config/binary":      func(b []byte) { c := cmp.EmptyConfig(group); _ = c.UnmarshalBinary(b) },
		"cmp.Config/cbor":        func(b []byte) { c := cmp.EmptyConfig(group); _ = cbor.Unmarshal(b, c) },
		"doerner.ConfigReceiver": func(b []byte) { c := doerner.EmptyConfigReceiver(group); _ = cbor.Unmarshal(b, c) },
		"doerner.ConfigSender":   func(b []byte) { c := doerner.EmptyConfigSender(group); _ = cbor.Unmarshal(b, c) },
	}
	names := make([]string, 0, len(decoders))
	for k := range decoders {
		names = append(names, k)
	}
	sort.Strings(names)
	for k := 0; k < count; k++ {
		var b []byte
		src := seeds[r.Intn(len(seeds))]
		kind := ""
		switch r.Intn(7) {
		case 6:
			// the smallest complete documents: null, undefined, true, 0, empty array / map / byte string / text
			tiny := [][]byte{{0xf6}, {0xf7}, {0xf5}, {0x00}, {0x80}, {0xa0}, {0x40}, {0x60}, {}}
			b = tiny[(k/len(names))%len(tiny)]
			kind = fmt.Sprintf("tiny-document-%x", b)
		case 0:
			b = r.Bytes(r.Intn(300))
			kind = "random"
		case 1:
			b = append([]byte{}, src...)
			for j := 0; j < 1+r.Intn(4); j++ {
				b[r.Intn(len(b))] ^= 1 << uint(r.Intn(8))
			}
			kind = "bitflips"
		case 2:
			b = append([]byte{}, src[:r.Intn(len(src))]...)
			kind = "truncated"
		case 3:
			hdr := []byte{0x9b, 0xff, 0xff, 0xff, 0xff, 0xff, 0xff, 0xff, 0xff} // array declared with 2^64-1 elements
			b = append(hdr, r.Bytes(8)...)
			kind = "over-declared-array"
		case 4:
			b = bytes.Repeat([]byte{0x81}, 5000) // 5000-deep nesting
			kind = "deep-nesting"
		case 5:
			b = append([]byte{0x5b, 0x7f, 0xff, 0xff, 0xff, 0xff, 0xff, 0xff, 0xff}, r.Bytes(16)...) // byte string declared with 2^63 bytes
			kind = "over-declared-bytes"
		}
		name := names[k%len(names)]
		t.Note("restore|"+name+"|"+kind, fmt.Sprintf("%x", trunc(b, 80)))
		pnk, fr, txt := vk.Guard(func() { decoders[name](b) })
		t.Obs("evaluations", 1)
		if k%50 == 0 {
			t.Distinct("restore|%s|%s", name, kind)
		}
		if pnk && !(strings.Contains(fr, "fxamacker/cbor") && strings.HasPrefix(name, "frost.") || strings.Contains(fr, "fxamacker/cbor") && strings.HasPrefix(name, "doerner.")) {
			t.Violation("restore|"+name+"|panic|"+fr, "decoding %s bytes into %s panicked in %s: %s", kind, name, fr, truncStr(txt, 160))
		} else if pnk {
			t.Violation("restore|"+name+"|panic|"+fr, "decoding %s bytes into %s panicked in %s: %s", kind, name, fr, truncStr(txt, 160))
		}
	}
	if i == 0 {
		t.Sample(map[string]any{"level": "restore", "decoders": names, "inputs": count})
	}
}

// c05OversizedNumber builds a len-byte number that survives the cheap rejections of a primality-based validation:
// p ≡ 3 (mod 4), and neither p nor (p-1)/2 has a prime factor below 1000 (so only an expensive test can refuse it).
func c05OversizedNumber(r *vk.Rand, length int) []byte {
	small := []int64{}
	for q := int64(3); q < 1000; q += 2 {
		pr := true
		for d := int64(3); d*d <= q; d += 2 {
			if q%d == 0 {
				pr = false
			}
		}
		if pr {
			small = append(small, q)
		}
	}
	b := r.Bytes(length)
	b[0] |= 0xc0
	b[len(b)-1] |= 3
	p := new(big.Int).SetBytes(b)
	four := big.NewInt(4)
	for {
		h := new(big.Int).Rsh(p, 1)
		ok := true
		for _, q := range small {
			bq := big.NewInt(q)
			if new(big.Int).Mod(p, bq).Sign() == 0 || new(big.Int).Mod(h, bq).Sign() == 0 {
				ok = false
				break
			}
		}
		if ok {
			return p.Bytes()
		}
		p.Add(p, four)
	}
}

// c05RestoreResource restores stored objects in which one number / byte field is replaced by an oversized value and
// measures the CPU time and the allocation of every restore call (bounded time and memory of "restoring stored key
// material or wire messages from arbitrary bytes").
func c05RestoreResource(t *vk.T, withCMP bool) {
	r := t.Rng
	w := c15Build(t, withCMP)
	if w == nil {
		return
	}
	names := []string{"frost.Config", "frost.TaprootConfig", "doerner.ConfigReceiver", "doerner.ConfigSender", "ecdsa.Signature", "protocol.Message"}
	if withCMP {
		names = []string{"cmp.Config/binary", "cmp.Config/cbor", "ecdsa.PreSignature"}
	}
	type probe struct {
		name string
		v    []byte
	}
	probes := []probe{
		{"oversized-8KiB-3mod4-no-small-factor", c05OversizedNumber(r, 8<<10)},
		{"oversized-64KiB-3mod4-no-small-factor", c05OversizedNumber(r, 64<<10)},
		{"ff-64KiB", bytes.Repeat([]byte{0xff}, 64<<10)},
		{"bytes-1MiB", bytes.Repeat([]byte{0x41}, 1<<20)},
		{"empty", []byte{}},
		{"one-byte", []byte{2}},
	}
	for _, nm := range names {
		c := codecs[nm]
		obj := objOf(w, nm, r)
		var data []byte
		var err error
		if p, _, _ := vk.Guard(func() { data, err = c.encode(obj) }); p || err != nil {
			t.Inconclusive("encoding %s failed", nm)
			continue
		}
		root, err := adv.Decode(data)
		if err != nil {
			t.Inconclusive("cannot parse the encoding of %s: %v", nm, err)
			continue
		}
		for _, s := range adv.Sites(root, 3) {
			if s.Kind != "bytes" {
				continue
			}
			for _, pb := range probes {
				b, err := adv.Encode(adv.With(root, s, pb.v, false))
				if err != nil {
					continue
				}
				t.Note("restore-resource|"+nm+"|"+s.Path+"|"+pb.name, "")
				done := make(chan struct{})
				var pnk bool
				var fr, txt string
				var ms0, ms1 runtime.MemStats
				runtime.ReadMemStats(&ms0)
				cpu0 := sim.CPUNanos()
				go func() {
					defer close(done)
					pnk, fr, txt = vk.Guard(func() { _, _ = c.restore(b) })
				}()
				over := false
			wait:
				for {
					select {
					case <-done:
						break wait
					case <-time.After(50 * time.Millisecond):
						if sim.CPUNanos()-cpu0 > c05CPUBudgetNs { // decided on CPU time consumed, not on the wall clock
							over = true
							break wait
						}
					}
				}
				cpu := sim.CPUNanos() - cpu0
				t.Obs("evaluations", 1)
				t.Obs("restores_with_oversized_field", 1)
				t.Distinct("restore-resource|%s|%s|%s", nm, s.Path, pb.name)
				t.ObsMax("cpu_ms_per_restore", cpu/1e6)
				if over {
					t.Violation("restore|"+nm+"|cpu-exhaustion|"+s.Path+"|"+pb.name, "restoring %s with %s = %s burnt %d CPU-s without returning", nm, s.Path, pb.name, cpu/1e9)
					return // the abandoned call keeps burning CPU: nothing measured after it would be meaningful
				}
				runtime.ReadMemStats(&ms1)
				alloc := ms1.TotalAlloc - ms0.TotalAlloc
				t.ObsMax("alloc_MiB_per_restore", int64(alloc>>20))
				if cpu > c05CPUBudgetNs {
					t.Violation("restore|"+nm+"|cpu-exhaustion|"+s.Path+"|"+pb.name, "restoring %s with %s = %s used %d CPU-s", nm, s.Path, pb.name, cpu/1e9)
				}
				if alloc > c05AllocBudget {
					t.Violation("restore|"+nm+"|memory-exhaustion|"+s.Path+"|"+pb.name, "restoring %s with %s = %s allocated %d MiB", nm, s.Path, pb.name, alloc>>20)
				}
				if pnk {
					t.Violation("restore|"+nm+"|panic|"+fr, "restoring %s with %s = %s panicked in %s: %s", nm, s.Path, pb.name, fr, truncStr(txt, 160))
				}
			}
		}
	}
	t.Sample(map[string]any{"level": "restore-resource", "types": names, "probes": []string{probes[0].name, probes[1].name, probes[2].name, probes[3].name, probes[4].name, probes[5].name}})
}
