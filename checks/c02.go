package checks

import (
	"fmt"

	"github.com/taurusgroup/multi-party-sig/pkg/party"
	"github.com/taurusgroup/multi-party-sig/pkg/protocol"
	"github.com/taurusgroup/multi-party-sig/protocols/cmp"
	"github.com/taurusgroup/multi-party-sig/protocols/doerner"
	"github.com/taurusgroup/multi-party-sig/protocols/frost"
	"github.com/taurusgroup/multi-party-sig/verif/fx"
	"github.com/taurusgroup/multi-party-sig/verif/sim"
	"github.com/taurusgroup/multi-party-sig/verif/vk"
)

func init() {
	vk.Register(&vk.Check{
		ID:    "C02",
		Level: "exploration",
		Rule: "real key generations through handlers in the simulator over (protocol, n, t, identifier alphabet, scheduler); the consistent-key-material oracle enumerates every (t+1)-subset (<=limit) with reference Lagrange; second attempts with the very same start functions after an abandoned first attempt are judged alike; " +
			"distinct non-trivial = distinct (protocol, n, t, alphabet, scheduler) tuples whose keygen completed and whose oracle evaluated at least one reconstruction subset",
		MinDistinct:  20,
		Assumptions:  []string{"reference Lagrange/secp256k1 in verif/ref", "CMP safe primes come from the pre-generated pool via hook H1 (each re-validated at load)"},
		Cases:        c02Cases,
		CaseTimeoutS: 1800,
	})
}

func pickSched(r *vk.Rand, ids []party.ID) (string, func(n *sim.Net) int) {
	switch r.Intn(4) {
	case 0:
		return "fifo", sim.SchedFIFO
	case 1:
		return "reverse", sim.SchedReverse
	case 2:
		return "starve", sim.SchedStarve(ids[r.Intn(len(ids))])
	}
	return "random", sim.SchedRandom
}

func c02Cases(env vk.Env) []vk.Case {
	var cs []vk.Case
	reps := env.Pick(2, 30)
	maxN := 8
	for n := 1; n <= maxN; n++ {
		for t := 0; t < n; t++ {
			for rep := 0; rep < reps; rep++ {
				n, t, rep := n, t, rep
				cs = append(cs, vk.Case{ID: fmt.Sprintf("frost/n%d/t%d/%d", n, t, rep), Run: func(tt *vk.T) { c02Frost(tt, n, t, false, rep) }})
				cs = append(cs, vk.Case{ID: fmt.Sprintf("taproot/n%d/t%d/%d", n, t, rep), Run: func(tt *vk.T) { c02Frost(tt, n, t, true, rep) }})
			}
		}
	}
	for i := 0; i < env.Pick(8, 150); i++ {
		i := i
		cs = append(cs, vk.Case{ID: fmt.Sprintf("doerner/%d", i), Run: func(tt *vk.T) { c02Doerner(tt, i) }})
	}
	for i := 0; i < env.Pick(6, 60); i++ {
		i := i
		for _, p := range []string{"frost", "taproot", "doerner"} {
			p := p
			cs = append(cs, vk.Case{ID: fmt.Sprintf("reuse/%s/%d", p, i), Run: func(tt *vk.T) { c02Reuse(tt, p, i) }})
		}
	}
	for i := 0; i < env.Pick(1, 6); i++ {
		i := i
		cs = append(cs, vk.Case{ID: fmt.Sprintf("reuse/cmp/%d", i), Run: func(tt *vk.T) { c02Reuse(tt, "cmp", i) }})
	}
	type nt struct{ n, t int }
	cmpSet := []nt{{2, 1}, {3, 1}, {3, 2}, {4, 1}, {3, 0}}
	if env.Thorough() {
		cmpSet = nil
		for n := 2; n <= 4; n++ {
			for t := 0; t < n; t++ {
				cmpSet = append(cmpSet, nt{n, t}, nt{n, t})
			}
		}
		cmpSet = append(cmpSet, nt{5, 1}, nt{5, 2}, nt{5, 4}, nt{6, 3})
	}
	for i, x := range cmpSet {
		i, x := i, x
		cs = append(cs, vk.Case{ID: fmt.Sprintf("cmp/n%d/t%d/%d", x.n, x.t, i), Run: func(tt *vk.T) { c02CMP(tt, x.n, x.t, i) }})
	}
	return cs
}

func reportMaterial(t *vk.T, proto string, shares []fx.Share, n, th int, tag string) bool {
	limit := 40
	if n <= 6 {
		limit = 100
	}
	fails, subsets := fx.CheckMaterial(t.Rng, shares, nil, limit)
	t.Obs("evaluations", 1)
	t.Obs("reconstruction_subsets_checked", int64(subsets))
	for _, f := range fails {
		t.Violation(proto+"|"+f[0], "%s n=%d t=%d %s: %s", proto, n, th, tag, f[1])
	}
	if len(fails) == 0 && subsets > 0 {
		t.Distinct("%s|n=%d|t=%d|%s", proto, n, th, tag)
		return true
	}
	return false
}

// c02Outsider: every real message is preceded on the wire, at its recipient, by a copy that names an identity outside
// the participant list as its sender (what anybody on the network can produce).  Key generation is an agreement
// between the listed parties: the copies must have no effect, i.e. the session completes and satisfies the same
// oracle.  Returns the Prepare hook and a counter of the copies delivered.
func c02Outsider(ids []party.ID, k int, extra ...party.ID) (func(n *sim.Net), *int) {
	names := append(append([]party.ID{}, extra...), "stranger", party.ID("\x01"), party.ID(string(ids[len(ids)-1])+"~"), party.ID("\xf4\x8f\xbf\xbf"))
	who := names[k%len(names)]
	for _, id := range ids {
		if id == who {
			who = "stranger-of-another-name"
		}
	}
	cnt := new(int)
	return func(n *sim.Net) {
		n.OnDeliver = func(_ *sim.Net, d *sim.Delivery) []*sim.Delivery {
			if d.Tag != "" || len(d.Bytes) == 0 {
				return []*sim.Delivery{d}
			}
			m := sim.Decode(d.Bytes)
			m.From = who
			b, err := m.MarshalBinary()
			if err != nil {
				return []*sim.Delivery{d}
			}
			c := *d
			c.Bytes, c.From, c.Orig, c.Emitter, c.Tag = b, who, nil, nil, "outsider"
			if c.Target == nil {
				c.Target = n.Party(d.To)
			}
			*cnt++
			return []*sim.Delivery{&c, d}
		}
	}, cnt
}

func c02Frost(t *vk.T, n, th int, taproot bool, rep int) {
	alpha := (rep + n + th) % 4
	ids := fx.IDs(t.Rng, alpha, n)
	sname, sched := pickSched(t.Rng, ids)
	proto := "frost"
	var shares []fx.Share
	var net *sim.Net
	opt := fx.Opt{Sched: sched}
	var outsiderCopies *int
	if rep%3 == 1 && n > 1 {
		opt.Prepare, outsiderCopies = c02Outsider(ids, rep/3+n+th)
		sname += "+outsider-copies"
		defer func() {
			t.Obs("outsider_copies_delivered", int64(*outsiderCopies))
			t.Distinct("%s|outsider-copies|n=%d|t=%d", proto, n, th)
		}()
	}
	if taproot {
		proto = "frost-taproot"
		cfgs, nn, err := fx.FrostKeygenTaproot(t.Rng, ids, th, opt)
		net = nn
		if err != nil {
			t.Violation(proto+"|keygen-did-not-complete", "n=%d t=%d ids=%q sched=%s: %v", n, th, ids, sname, err)
			return
		}
		for _, id := range ids {
			shares = append(shares, fx.ShareOfTaproot(cfgs[id]))
		}
	} else {
		cfgs, nn, err := fx.FrostKeygen(t.Rng, ids, th, opt)
		net = nn
		if err != nil {
			t.Violation(proto+"|keygen-did-not-complete", "n=%d t=%d ids=%q sched=%s: %v", n, th, ids, sname, err)
			return
		}
		for _, id := range ids {
			shares = append(shares, fx.ShareOfFrost(cfgs[id]))
		}
	}
	for _, s := range shares {
		if len(s.ChainKey) != 32 {
			t.Violation(proto+"|chain-key-length", "party %q chain key has %d bytes", s.ID, len(s.ChainKey))
		}
	}
	t.Obs("deliveries", int64(net.Steps))
	if reportMaterial(t, proto, shares, n, th, fmt.Sprintf("alphabet=%d|sched=%s", alpha, sname)) && rep == 0 {
		t.Sample(map[string]any{"protocol": proto, "n": n, "t": th, "ids": fx.IDStrings(ids), "scheduler": sname, "deliveries": net.Steps, "order": net.OrderHash()})
	}
}

func c02Doerner(t *vk.T, i int) {
	ids := fx.IDs(t.Rng, i%4, 2)
	rid, sid := ids[0], ids[1]
	if i%2 == 1 {
		rid, sid = sid, rid
	}
	sname, sched := pickSched(t.Rng, ids)
	k, net, err := fx.DoernerKeygen(t.Rng, rid, sid, fx.Opt{Sched: sched, SessionID: t.Rng.Bytes(8)})
	if err != nil {
		t.Violation("doerner|keygen-did-not-complete", "ids=%q: %v", ids, err)
		return
	}
	t.Obs("deliveries", int64(net.Steps))
	// the OT base correlation established by key generation: K_Delta[i] = K_{Delta_i}[i] for all 128 indices
	if k.S.Setup == nil || k.R.Setup == nil {
		t.Violation("doerner|ot-setup-missing", "a party finished key generation without an OT setup")
	} else {
		delta := fieldRows(k.S.Setup, "_Delta")[0]
		kd := fieldRows(k.S.Setup, "_K_Delta")
		k0 := fieldRows(k.R.Setup, "_K_0")
		k1 := fieldRows(k.R.Setup, "_K_1")
		okc := len(kd) == 128 && len(k0) == 128 && len(k1) == 128
		for j := 0; okc && j < 128; j++ {
			want := k0[j]
			if otBit(j, delta) == 1 {
				want = k1[j]
			}
			if string(kd[j]) != string(want) || string(k0[j]) == string(k1[j]) {
				okc = false
			}
		}
		t.Obs("ot_base_correlations_checked", 1)
		if !okc {
			t.Violation("doerner|ot-base-correlation", "after key generation the sender's K_Delta is not the receiver's K_{Delta_i} for every index")
		}
	}
	if reportMaterial(t, "doerner", fx.SharesOfDoerner(k), 2, 1, fmt.Sprintf("alphabet=%d|sched=%s|receiver-first=%v", i%4, sname, i%2 == 0)) && i < 2 {
		t.Sample(map[string]any{"protocol": "doerner", "receiver": string(rid), "sender": string(sid), "scheduler": sname})
	}
}

func c02CMP(t *vk.T, n, th int, i int) {
	fx.InstallPrimeHook()
	fx.SetPrimeOffset(uint64(t.Rng.Intn(1000)))
	alpha := i % 4
	ids := fx.IDs(t.Rng, alpha, n)
	sname, sched := pickSched(t.Rng, ids)
	opt := fx.Opt{Sched: sched}
	if i%2 == 1 {
		var copies *int
		opt.Prepare, copies = c02Outsider(ids, i/2)
		sname += "+outsider-copies"
		defer func() {
			t.Obs("outsider_copies_delivered", int64(*copies))
			t.Distinct("cmp|outsider-copies|n=%d|t=%d", n, th)
		}()
	}
	cfgs, net, err := fx.CMPKeygen(t.Rng, ids, th, nil, opt)
	if err != nil {
		t.Violation("cmp|keygen-did-not-complete", "n=%d t=%d ids=%q sched=%s: %v", n, th, ids, sname, err)
		return
	}
	var shares []fx.Share
	for _, id := range ids {
		shares = append(shares, fx.ShareOfCMP(cfgs[id]))
	}
	for _, s := range shares {
		if len(s.ChainKey) != 32 {
			t.Violation("cmp|chain-key-length", "party %q chain key has %d bytes", s.ID, len(s.ChainKey))
		}
	}
	t.Obs("deliveries", int64(net.Steps))
	if reportMaterial(t, "cmp", shares, n, th, fmt.Sprintf("alphabet=%d|sched=%s", alpha, sname)) {
		t.Sample(map[string]any{"protocol": "cmp", "n": n, "t": th, "ids": fx.IDStrings(ids), "scheduler": sname, "deliveries": net.Steps})
	}
}

// c02Reuse: a key generation is started and abandoned (handlers created, then stopped), and a second attempt with
// the very same start functions and another session id runs to completion: its outcome must satisfy the same
// consistency conditions as any key generation (a start function is a description of a session, not a session).
func c02Reuse(t *vk.T, proto string, i int) {
	r := t.Rng
	n := 2 + i%3
	th := 1
	if proto == "doerner" {
		n = 2
	}
	ids := fx.IDs(r, i%4, n)
	sfs := map[party.ID]protocol.StartFunc{}
	for _, id := range ids {
		switch proto {
		case "frost":
			sfs[id] = frost.Keygen(group, id, ids, th)
		case "taproot":
			sfs[id] = frost.KeygenTaproot(id, ids, th)
		case "cmp":
			sfs[id] = cmp.Keygen(group, id, ids, th, nil)
		}
	}
	if proto == "cmp" {
		fx.InstallPrimeHook()
		fx.SetPrimeOffset(uint64(r.Intn(1000)))
	}
	if proto == "doerner" {
		sfs[ids[0]] = doerner.Keygen(group, true, ids[0], ids[1], nil)
		sfs[ids[1]] = doerner.Keygen(group, false, ids[1], ids[0], nil)
	}
	who := i % 3 // which parties had an abandoned first attempt: 0 = all, 1 = first only, 2 = last only
	for k, id := range ids {
		if who == 1 && k != 0 || who == 2 && k != len(ids)-1 {
			continue
		}
		var h protocol.Handler
		var err error
		if proto == "doerner" {
			h, err = protocol.NewTwoPartyHandler(sfs[id], []byte("abandoned"), k == 0)
		} else {
			h, err = protocol.NewMultiHandler(sfs[id], []byte("abandoned"))
		}
		if err != nil {
			t.Inconclusive("first attempt could not be started: %v", err)
			return
		}
		h.Stop()
		for range h.Listen() {
		}
	}
	var outs []fx.Outcome
	var err error
	opt := fx.Opt{SessionID: r.Bytes(6)}
	if proto == "doerner" {
		_, outs, err = fx.RunTwo(r, ids[0], ids[1], sfs[ids[0]], sfs[ids[1]], true, false, opt)
	} else {
		_, outs, err = fx.RunMulti(r, ids, func(id party.ID) protocol.StartFunc { return sfs[id] }, opt)
	}
	tag := fmt.Sprintf("%s n=%d ids=%q abandoned-first-attempt=%d", proto, n, ids, who)
	if err != nil {
		t.Violation(proto+"|second-attempt-refused", "%s: %v", tag, err)
		return
	}
	if !fx.AllDone(outs) {
		t.Violation(proto+"|second-attempt-did-not-complete", "%s: %s", tag, fx.Describe(outs))
		return
	}
	var shares []fx.Share
	for _, o := range outs {
		pnk, fr, txt := vk.Guard(func() {
			switch c := o.Value.(type) {
			case *frost.Config:
				shares = append(shares, fx.ShareOfFrost(c))
			case *frost.TaprootConfig:
				shares = append(shares, fx.ShareOfTaproot(c))
			case *cmp.Config:
				shares = append(shares, fx.ShareOfCMP(c))
			case *doerner.ConfigReceiver:
				s := fx.Share{ID: string(o.ID), T: 1, Secret: fx.IntOf(c.SecretShare), ChainKey: c.ChainKey, Additive: true}
				var e error
				if s.GroupKey, e = fx.PtOf(c.Public); e != nil {
					s.Malformed = "group key: " + e.Error()
				}
				shares = append(shares, s)
			case *doerner.ConfigSender:
				s := fx.Share{ID: string(o.ID), T: 1, Secret: fx.IntOf(c.SecretShare), ChainKey: c.ChainKey, Additive: true}
				var e error
				if s.GroupKey, e = fx.PtOf(c.Public); e != nil {
					s.Malformed = "group key: " + e.Error()
				}
				shares = append(shares, s)
			}
		})
		if pnk {
			t.Violation(proto+"|second-attempt-result-unusable", "%s: reading the result of %q panicked in %s: %s", tag, o.ID, fr, txt)
			return
		}
	}
	for _, s := range shares {
		if s.Malformed != "" {
			t.Violation(proto+"|second-attempt-result-malformed", "%s: party %q: %s", tag, s.ID, s.Malformed)
			return
		}
	}
	t.Obs("reused_start_functions", 1)
	reportMaterial(t, proto, shares, n, th, fmt.Sprintf("second-attempt|abandoned=%d", who))
}
