package checks

import (
	"bytes"
	"fmt"
	"reflect"

	"github.com/taurusgroup/multi-party-sig/internal/round"
	"github.com/taurusgroup/multi-party-sig/pkg/ecdsa"
	"github.com/taurusgroup/multi-party-sig/pkg/party"
	"github.com/taurusgroup/multi-party-sig/pkg/protocol"
	"github.com/taurusgroup/multi-party-sig/protocols/cmp"
	"github.com/taurusgroup/multi-party-sig/protocols/cmp/presign"
	"github.com/taurusgroup/multi-party-sig/protocols/doerner"
	"github.com/taurusgroup/multi-party-sig/protocols/frost"
	"github.com/taurusgroup/multi-party-sig/verif/fx"
	"github.com/taurusgroup/multi-party-sig/verif/sim"
	"github.com/taurusgroup/multi-party-sig/verif/vk"
)

func init() {
	vk.Register(&vk.Check{
		ID:    "C09",
		Level: "fault_enumeration",
		Rule: "(1) tag lattice: for every start function, pairs of session descriptions differing in exactly one parameter (session id nil/empty/value, protocol, participant set incl. equal-concatenation and shared-prefix families, threshold, and for CMP refresh/sign/presign key material, presignature, message) must stamp different session tags; (2) replay: every wire message of session A is offered to every party of a session B (one differing parameter) after every delivery step of B: CanAccept must be false, and forced delivery must leave B's outcome unchanged; (3) transfer: a corrupted participant's messages are replaced by another participant's (same session) or by its own from another session (headers rewritten): no honest party may finish; " +
			"distinct non-trivial = distinct (start function, differing dimension, variant) tag pairs + distinct (protocol pair, step) replay points + distinct (protocol, round, transfer kind) transfers",
		MinDistinct:  60,
		Assumptions:  []string{"only secp256k1 is offered, so the curve dimension has a single point", "session tags are read from the handlers' round objects by reflection (same value as Message.SSID of outgoing messages)"},
		Cases:        c09Cases,
		CaseTimeoutS: 2400,
	})
}

func ssidOf(h protocol.Handler) []byte {
	for _, name := range []string{"currentRound", "round"} {
		f, err := fx.Unexported(reflect.ValueOf(h), name)
		if err != nil {
			continue
		}
		if s, ok := f.Interface().(round.Session); ok && s != nil {
			return s.SSID()
		}
	}
	return nil
}

// sessDesc is a session description: how to start party `self`.
type sessDesc struct {
	label string
	two   bool
	lead  bool
	start func(sid []byte) (protocol.Handler, error)
}

func tagOf(d sessDesc, sid []byte) ([]byte, error) {
	var h protocol.Handler
	var err error
	if p, fr, txt := vk.Guard(func() { h, err = d.start(sid) }); p {
		return nil, fmt.Errorf("start panicked in %s: %s", fr, txt)
	}
	if err != nil {
		return nil, err
	}
	return ssidOf(h), nil
}

type c09Msgs struct {
	name string
	a, b []byte
}

// c09MsgFamily: pairs of different messages to sign (32-byte digests and longer messages).
func c09MsgFamily(r *vk.Rand) []c09Msgs {
	m := r.Bytes(32)
	l := r.Bytes(64)
	flip := func(b []byte, i int) []byte { o := append([]byte{}, b...); o[i] ^= 1; return o }
	return []c09Msgs{
		{"32B-first-byte", m, flip(m, 0)},
		{"32B-last-byte", m, flip(m, 31)},
		{"32B-vs-31B-prefix", m, m[:31]},
		{"64B-last-byte", l, flip(l, 63)},
		{"64B-byte-32", l, flip(l, 32)},
		{"64B-vs-32B-prefix", l, l[:32]},
		{"64B-vs-65B", l, append(append([]byte{}, l...), 0)},
		{"200B-last-byte", append(append([]byte{}, l...), bytes.Repeat([]byte{7}, 136)...), append(append([]byte{}, l...), append(bytes.Repeat([]byte{7}, 135), 8)...)},
	}
}

func mh(sf protocol.StartFunc) func(sid []byte) (protocol.Handler, error) {
	return func(sid []byte) (protocol.Handler, error) { return protocol.NewMultiHandler(sf, sid) }
}
func th(sf protocol.StartFunc, leader bool) func(sid []byte) (protocol.Handler, error) {
	return func(sid []byte) (protocol.Handler, error) { return protocol.NewTwoPartyHandler(sf, sid, leader) }
}

type tagPair struct {
	dim, variant string
	a, b         sessDesc
	sidA, sidB   []byte
}

func c09Cases(env vk.Env) []vk.Case {
	var cs []vk.Case
	for i := 0; i < env.Pick(3, 30); i++ {
		i := i
		cs = append(cs, vk.Case{ID: fmt.Sprintf("tags-cheap/%d", i), Run: func(t *vk.T) { c09Tags(t, i, false) }})
	}
	for i := 0; i < env.Pick(1, 6); i++ {
		i := i
		cs = append(cs, vk.Case{ID: fmt.Sprintf("tags-cmp/%d", i), Run: func(t *vk.T) { c09Tags(t, i, true) }})
	}
	for _, p := range []string{"frost-keygen", "frost-sign", "taproot-sign", "doerner-keygen", "doerner-sign", "frost-refresh"} {
		for i := 0; i < env.Pick(4, 40); i++ {
			p, i := p, i
			cs = append(cs, vk.Case{ID: fmt.Sprintf("replay/%s/%d", p, i), Run: func(t *vk.T) { c09Replay(t, p, i) }})
		}
	}
	for i := 0; i < env.Pick(2, 16); i++ {
		i := i
		cs = append(cs, vk.Case{ID: fmt.Sprintf("replay/cmp-sign/%d", i), Run: func(t *vk.T) { c09Replay(t, "cmp-sign", i) }})
	}
	for _, p := range []string{"frost-keygen", "taproot-keygen", "frost-refresh"} {
		for i := 0; i < env.Pick(4, 40); i++ {
			p, i := p, i
			cs = append(cs, vk.Case{ID: fmt.Sprintf("transfer/%s/%d", p, i), Run: func(t *vk.T) { c09Transfer(t, p, i, env) }})
		}
	}
	for i := 0; i < env.Pick(2, 12); i++ {
		i := i
		cs = append(cs, vk.Case{ID: fmt.Sprintf("transfer/cmp-keygen/%d", i), Run: func(t *vk.T) { c09Transfer(t, "cmp-keygen", i, env) }})
		cs = append(cs, vk.Case{ID: fmt.Sprintf("transfer/cmp-sign/%d", i), Run: func(t *vk.T) { c09Transfer(t, "cmp-sign", i, env) }})
	}
	return cs
}

// idFamilies returns pairs of participant sets that must be told apart.
func idFamilies(r *vk.Rand) [][3]interface{} {
	x := string(append([]byte{'k'}, []byte(fmt.Sprintf("%d", r.Intn(90)))...))
	return [][3]interface{}{
		{"equal-concatenation", []party.ID{"ab", "c", "d"}, []party.ID{"a", "bc", "d"}},
		{"equal-concatenation-2", []party.ID{party.ID(x + "1"), party.ID("2" + x), "zz"}, []party.ID{party.ID(x), party.ID("12" + x), "zz"}},
		{"shared-prefix", []party.ID{"a", "ab", "abc", "z"}, []party.ID{"a", "ab", "abd", "z"}},
		{"one-id-is-concatenation-of-two", []party.ID{"a", "b", "c"}, []party.ID{"a", "ab", "c"}},
		{"embedded-separator", []party.ID{"a,b", "c", "d"}, []party.ID{"a", "b,c", "d"}},
		{"other-member", []party.ID{"a", "b", "z"}, []party.ID{"a", "c", "z"}},
		{"extra-member", []party.ID{"a", "b", "z"}, []party.ID{"a", "b", "c", "z"}},
		{"length-prefix-lookalike", []party.ID{"a\x00\x00\x00\x00\x00\x00\x00\x01b", "z"}, []party.ID{"a", "b", "z"}},
		// identifiers that embed what a weakened framing would put between two identifiers: the list size or an
		// identifier length as 8- or 4-byte big-endian numbers (valid UTF-8: only NULs and small control characters)
		{"embedded-count-be64", []party.ID{"a", "b\x00\x00\x00\x00\x00\x00\x00\x03c", "x"}, []party.ID{"a\x00\x00\x00\x00\x00\x00\x00\x03b", "c", "x"}},
		{"embedded-count-be32", []party.ID{"a", "b\x00\x00\x00\x03c", "x"}, []party.ID{"a\x00\x00\x00\x03b", "c", "x"}},
		{"embedded-length-be64", []party.ID{"a", "b\x00\x00\x00\x00\x00\x00\x00\x01c", "x"}, []party.ID{"a\x00\x00\x00\x00\x00\x00\x00\x01b", "c", "x"}},
		{"embedded-nul", []party.ID{"a", "b\x00c", "x"}, []party.ID{"a\x00b", "c", "x"}},
	}
}

func c09Tags(t *vk.T, i int, withCMP bool) {
	r := t.Rng
	var pairs []tagPair
	sid := r.Bytes(8)
	sid2 := append([]byte{}, sid...)
	sid2[0] ^= 1
	sidVariants := [][2]interface{}{{"nil-vs-empty", [2][]byte{nil, {}}}, {"nil-vs-value", [2][]byte{nil, sid}}, {"empty-vs-value", [2][]byte{{}, sid}}, {"bitflip", [2][]byte{sid, sid2}}, {"longer", [2][]byte{sid, append(append([]byte{}, sid...), 0)}}}
	addSid := func(d sessDesc) {
		for _, v := range sidVariants {
			s := v[1].([2][]byte)
			pairs = append(pairs, tagPair{"session-id", v[0].(string), d, d, s[0], s[1]})
		}
	}
	ids := []party.ID{"a", "b", "c"}
	if !withCMP {
		fm, err := fx.NewFrostMat(r, ids, 1, fx.Opt{})
		if err != nil {
			t.Inconclusive("%v", err)
			return
		}
		tm, err := fx.NewTaprootMat(r, ids, 1, fx.Opt{})
		if err != nil {
			t.Inconclusive("%v", err)
			return
		}
		dm, err := fx.NewDoernerMat(r, "a", "b", fx.Opt{})
		if err != nil {
			t.Inconclusive("%v", err)
			return
		}
		msg := r.Bytes(32)
		fk := func(ids []party.ID, th int) sessDesc {
			return sessDesc{label: "frost.Keygen", start: mh(frost.Keygen(group, ids[len(ids)-1], ids, th))}
		}
		tk := func(ids []party.ID, th int) sessDesc {
			return sessDesc{label: "frost.KeygenTaproot", start: mh(frost.KeygenTaproot(ids[len(ids)-1], ids, th))}
		}
		fs := func(S []party.ID) sessDesc {
			return sessDesc{label: "frost.Sign", start: mh(frost.Sign(fm.Cfgs["a"], S, msg))}
		}
		ts := func(S []party.ID) sessDesc {
			return sessDesc{label: "frost.SignTaproot", start: mh(frost.SignTaproot(tm.Cfgs["a"], S, msg))}
		}
		fr := sessDesc{label: "frost.Refresh", start: mh(frost.Refresh(fm.Cfgs["a"], ids))}
		tr := sessDesc{label: "frost.RefreshTaproot", start: mh(frost.RefreshTaproot(tm.Cfgs["a"], ids))}
		dk := func(self, other party.ID, recv bool) sessDesc {
			return sessDesc{label: "doerner.Keygen", two: true, start: th(doerner.Keygen(group, recv, self, other, nil), recv)}
		}
		dsR := sessDesc{label: "doerner.SignReceiver", two: true, start: th(doerner.SignReceiver(dm.K.R, "a", "b", msg, nil), true)}
		dsS := sessDesc{label: "doerner.SignSender", two: true, start: th(doerner.SignSender(dm.K.S, "b", "a", msg, nil), true)}
		drR := sessDesc{label: "doerner.RefreshReceiver", two: true, start: th(doerner.RefreshReceiver(dm.K.R, "a", "b", nil), true)}
		for _, d := range []sessDesc{fk(ids, 1), tk(ids, 1), fs(ids), ts(ids), fr, tr, dk("a", "b", true), dsR, dsS, drR} {
			addSid(d)
		}
		// protocol dimension (everything else equal)
		pp := func(v string, a, b sessDesc) { pairs = append(pairs, tagPair{"protocol", v, a, b, sid, sid}) }
		pp("frost.Keygen-vs-KeygenTaproot", fk(ids, 1), tk(ids, 1))
		pp("frost.Sign-vs-SignTaproot", fs(ids), ts(ids))
		pp("frost.Keygen-vs-Sign", fk(ids, 1), fs(ids))
		pp("frost.Keygen-vs-Refresh", fk(ids, 1), fr)
		pp("frost.KeygenTaproot-vs-RefreshTaproot", tk(ids, 1), tr)
		pp("doerner.Keygen-vs-SignReceiver", dk("a", "b", true), dsR)
		pp("doerner.Keygen-vs-SignSender", dk("b", "a", false), dsS)
		pp("doerner.Keygen-vs-Refresh", dk("a", "b", true), drR)
		pp("doerner.Keygen-vs-frost.Keygen(2 parties)", dk("a", "b", true), fk([]party.ID{"a", "b"}, 1))
		// (the message dimension is demanded for CMP only - the statement says so -: FROST and Doerner signing bind
		// the message below the session tag, in the challenge; no message pairs here)
		// participant sets
		for _, f := range idFamilies(r) {
			A, B := f[1].([]party.ID), f[2].([]party.ID)
			if A[len(A)-1] != B[len(B)-1] {
				continue
			}
			pairs = append(pairs, tagPair{"participants", "frost.Keygen/" + f[0].(string), fk(A, 1), fk(B, 1), sid, sid})
			pairs = append(pairs, tagPair{"participants", "frost.KeygenTaproot/" + f[0].(string), tk(A, 1), tk(B, 1), sid, sid})
		}
		pairs = append(pairs, tagPair{"participants", "frost.Sign/signer-subset", fs(ids), fs([]party.ID{"a", "b"}), sid, sid})
		pairs = append(pairs, tagPair{"participants", "frost.Sign/other-subset", fs([]party.ID{"a", "c"}), fs([]party.ID{"a", "b"}), sid, sid})
		pairs = append(pairs, tagPair{"participants", "doerner.Keygen/other-peer", dk("a", "b", true), dk("a", "c", true), sid, sid})
		pairs = append(pairs, tagPair{"participants", "doerner.Keygen/equal-concatenation", dk("ab", "c", true), dk("a", "bc", true), sid, sid})
		// threshold
		four := []party.ID{"a", "b", "c", "d"}
		for _, tt := range [][2]int{{1, 2}, {0, 1}, {2, 3}, {0, 3}} {
			pairs = append(pairs, tagPair{"threshold", fmt.Sprintf("frost.Keygen/%d-vs-%d", tt[0], tt[1]), fk(four, tt[0]), fk(four, tt[1]), sid, sid})
			pairs = append(pairs, tagPair{"threshold", fmt.Sprintf("frost.KeygenTaproot/%d-vs-%d", tt[0], tt[1]), tk(four, tt[0]), tk(four, tt[1]), sid, sid})
		}
	} else {
		fx.InstallPrimeHook()
		fx.SetPrimeOffset(uint64(r.Intn(1000)))
		cm := fx.NewCMPMatDealt(ids, 1)
		cm2 := fx.NewCMPMatDealt(ids, 1)
		cmT2 := fx.NewCMPMatDealt(ids, 2)
		dr, _ := cm.Derive(5)
		cmd := dr.(*fx.CMPMat)
		msg, msg2 := r.Bytes(32), r.Bytes(32)
		S := []party.ID{"a", "c"}
		// presignatures
		var pre, pre2 map[party.ID]*ecdsa.PreSignature
		for k := 0; k < 2; k++ {
			_, outs, err := fx.RunMulti(r, S, func(id party.ID) protocol.StartFunc { return cmp.Presign(cm.Cfgs[id], S, nil) }, fx.Opt{SessionID: r.Bytes(4)})
			if err != nil || !fx.AllDone(outs) {
				t.Inconclusive("presign failed: %v %s", err, fx.Describe(outs))
				return
			}
			m := map[party.ID]*ecdsa.PreSignature{}
			for _, o := range outs {
				m[o.ID] = o.Value.(*ecdsa.PreSignature)
			}
			if k == 0 {
				pre = m
			} else {
				pre2 = m
			}
		}
		kg := func(ids []party.ID, th int) sessDesc {
			return sessDesc{label: "cmp.Keygen", start: mh(cmp.Keygen(group, ids[len(ids)-1], ids, th, nil))}
		}
		rf := func(c *cmp.Config) sessDesc { return sessDesc{label: "cmp.Refresh", start: mh(cmp.Refresh(c, nil))} }
		sg := func(c *cmp.Config, S []party.ID, m []byte) sessDesc {
			return sessDesc{label: "cmp.Sign", start: mh(cmp.Sign(c, S, m, nil))}
		}
		po := func(c *cmp.Config, S []party.ID) sessDesc {
			return sessDesc{label: "cmp.Presign", start: mh(cmp.Presign(c, S, nil))}
		}
		pf := func(c *cmp.Config, S []party.ID, m []byte) sessDesc {
			return sessDesc{label: "presign.StartPresign(full)", start: mh(presign.StartPresign(c, S, m, nil))}
		}
		on := func(c *cmp.Config, p *ecdsa.PreSignature, m []byte) sessDesc {
			return sessDesc{label: "cmp.PresignOnline", start: mh(cmp.PresignOnline(c, p, m, nil))}
		}
		a := cm.Cfgs["a"]
		for _, d := range []sessDesc{kg(ids, 1), rf(a), sg(a, S, msg), po(a, S), pf(a, S, msg), on(a, pre["a"], msg)} {
			addSid(d)
		}
		pp := func(dim, v string, x, y sessDesc) { pairs = append(pairs, tagPair{dim, v, x, y, sid, sid}) }
		pp("protocol", "cmp.Keygen-vs-Refresh", kg(ids, 1), rf(a))
		pp("protocol", "cmp.Sign-vs-Presign(full)", sg(a, S, msg), pf(a, S, msg))
		pp("protocol", "cmp.Presign-vs-Presign(full)", po(a, S), pf(a, S, msg))
		pp("protocol", "cmp.Sign-vs-PresignOnline", sg(a, S, msg), on(a, pre["a"], msg))
		pp("protocol", "cmp.Presign(full)-vs-PresignOnline", pf(a, S, msg), on(a, pre["a"], msg))
		pp("protocol", "cmp.Keygen-vs-frost.Keygen", kg(ids, 1), sessDesc{label: "frost.Keygen", start: mh(frost.Keygen(group, "a", ids, 1))})
		for _, f := range idFamilies(r) {
			A, B := f[1].([]party.ID), f[2].([]party.ID)
			if A[len(A)-1] != B[len(B)-1] {
				continue
			}
			pp("participants", "cmp.Keygen/"+f[0].(string), kg(A, 1), kg(B, 1))
		}
		pp("participants", "cmp.Sign/signer-subset", sg(a, ids, msg), sg(a, S, msg))
		pp("participants", "cmp.Sign/other-subset", sg(a, []party.ID{"a", "b"}, msg), sg(a, S, msg))
		pp("participants", "cmp.Presign/signer-subset", po(a, ids), po(a, S))
		four := []party.ID{"a", "b", "c", "d"}
		pp("threshold", "cmp.Keygen/1-vs-2", kg(four, 1), kg(four, 2))
		pp("threshold", "cmp.Keygen/0-vs-3", kg(four, 0), kg(four, 3))
		pp("key-material", "cmp.Sign/other-keygen", sg(a, S, msg), sg(cm2.Cfgs["a"], S, msg))
		pp("key-material", "cmp.Sign/derived", sg(a, S, msg), sg(cmd.Cfgs["a"], S, msg))
		pp("key-material", "cmp.Sign/other-threshold-material", sg(cm.Cfgs["a"], ids, msg), sg(cmT2.Cfgs["a"], ids, msg))
		pp("key-material", "cmp.Refresh/other-keygen", rf(a), rf(cm2.Cfgs["a"]))
		pp("key-material", "cmp.Refresh/derived", rf(a), rf(cmd.Cfgs["a"]))
		pp("key-material", "cmp.Presign/other-keygen", po(a, S), po(cm2.Cfgs["a"], S))
		pp("key-material", "cmp.Presign(full)/derived", pf(a, S, msg), pf(cmd.Cfgs["a"], S, msg))
		pp("key-material", "cmp.PresignOnline/derived-config", on(a, pre["a"], msg), on(cmd.Cfgs["a"], pre["a"], msg))
		pp("presignature", "cmp.PresignOnline/other-presignature", on(a, pre["a"], msg), on(a, pre2["a"], msg))
		for _, mf := range c09MsgFamily(r) {
			pp("message", "cmp.Sign/"+mf.name, sg(a, S, mf.a), sg(a, S, mf.b))
			pp("message", "cmp.Presign(full)/"+mf.name, pf(a, S, mf.a), pf(a, S, mf.b))
			pp("message", "cmp.PresignOnline/"+mf.name, on(a, pre["a"], mf.a), on(a, pre["a"], mf.b))
		}
		pp("message", "cmp.Sign", sg(a, S, msg), sg(a, S, msg2))
		pp("message", "cmp.Sign/prefix", sg(a, S, msg), sg(a, S, msg[:31]))
		pp("message", "cmp.Presign(full)", pf(a, S, msg), pf(a, S, msg2))
		pp("message", "cmp.PresignOnline", on(a, pre["a"], msg), on(a, pre["a"], msg2))
		if rr, _, err := fx.CMPRefresh(r, ids, cm.Cfgs, nil, fx.Opt{}); err == nil {
			pp("key-material", "cmp.Sign/refreshed", sg(a, S, msg), sg(rr["a"], S, msg))
		}
	}
	for _, p := range pairs {
		ta, ea := tagOf(p.a, p.sidA)
		tb, eb := tagOf(p.b, p.sidB)
		t.Obs("evaluations", 1)
		if ea != nil || eb != nil {
			t.Obs("tag_pairs_refused_at_start", 1)
			continue
		}
		if ta == nil || tb == nil {
			t.Inconclusive("no tag for %s / %s", p.a.label, p.b.label)
			continue
		}
		t.Distinct("tag|%s|%s|%s", p.a.label, p.dim, p.variant)
		// determinism control
		ta2, _ := tagOf(p.a, p.sidA)
		if !bytes.Equal(ta, ta2) {
			t.Violation("tag|nondeterministic|"+p.a.label, "the same session description (%s/%s) produced two different tags %x %x", p.dim, p.variant, ta[:6], ta2[:6])
		}
		if bytes.Equal(ta, tb) {
			t.Violation("tag|collision|"+p.dim+"|"+p.variant, "sessions %s and %s differing only in %s (%s) carry the same session tag %x", p.a.label, p.b.label, p.dim, p.variant, ta[:8])
		}
	}
	if i == 0 {
		t.Sample(map[string]any{"kind": "tag lattice", "pairs": len(pairs), "example": pairs[len(pairs)/2].dim + "/" + pairs[len(pairs)/2].variant})
	}
}

// ---------- (2) cross-session replay ----------

type replayWorld struct {
	alt   map[int][]party.ID // participant ids of a variant, when they differ from the victim's
	ids   []party.ID
	two   bool
	lead  [2]bool
	start func(variant int) func(id party.ID) protocol.StartFunc // variant 0 = session B (the victim), 1.. = sessions A differing in one parameter
	sids  [][]byte
	names []string
	judge func(t *vk.T, outs []fx.Outcome, tag string)
}

func c09World(t *vk.T, proto string, i int) *replayWorld {
	r := t.Rng
	w := &replayWorld{}
	sid := r.Bytes(6)
	sid2 := append([]byte{}, sid...)
	sid2[len(sid2)-1] ^= 0x80
	switch proto {
	case "frost-keygen":
		n := 3 + r.Intn(2)
		w.ids = fx.IDs(r, i%3, n)
		th := 1
		other := append(append([]party.ID{}, w.ids[:n-1]...), party.ID(string(w.ids[n-1])+"x"))
		w.alt = map[int][]party.ID{5: other}
		w.names = []string{"victim", "other-session-id", "nil-session-id", "other-threshold", "taproot-variant", "other-participants"}
		w.sids = [][]byte{sid, sid2, nil, sid, sid, sid}
		w.start = func(v int) func(id party.ID) protocol.StartFunc {
			return func(id party.ID) protocol.StartFunc {
				switch v {
				case 3:
					return frost.Keygen(group, id, w.ids, th+1)
				case 4:
					return frost.KeygenTaproot(id, w.ids, th)
				case 5:
					return frost.Keygen(group, id, other, th)
				}
				return frost.Keygen(group, id, w.ids, th)
			}
		}
		w.judge = func(t *vk.T, outs []fx.Outcome, tag string) {
			var shares []fx.Share
			for _, o := range outs {
				if c, ok := o.Value.(*frost.Config); ok {
					shares = append(shares, fx.ShareOfFrost(c))
				}
			}
			if len(shares) != len(outs) {
				t.Violation(proto+"|replay-changes-outcome|incomplete", "%s: %s", tag, fx.Describe(outs))
				return
			}
			if f, _ := fx.CheckMaterial(t.Rng, shares, nil, 10); len(f) > 0 {
				t.Violation(proto+"|replay-changes-outcome|"+f[0][0], "%s: %s", tag, f[0][1])
			}
		}
	case "frost-sign", "taproot-sign", "frost-refresh":
		n := 3
		w.ids = fx.IDs(r, i%3, n)
		fm, err := fx.NewFrostMat(r, w.ids, 1, fx.Opt{})
		tm, err2 := fx.NewTaprootMat(r, w.ids, 1, fx.Opt{})
		fm2, err3 := fx.NewFrostMat(r, w.ids, 1, fx.Opt{})
		if err != nil || err2 != nil || err3 != nil {
			t.Inconclusive("keygen failed")
			return nil
		}
		msg := r.Bytes(32)
		key := fm.Shares()[0].GroupKey
		tkey := tm.Shares()[0].GroupKey
		S2 := w.ids[:2]
		if proto == "frost-refresh" {
			// (other key material is not a dimension the statement requires outside CMP)
			w.names = []string{"victim", "other-session-id", "keygen-with-same-parties"}
			w.sids = [][]byte{sid, sid2, sid}
			w.start = func(v int) func(id party.ID) protocol.StartFunc {
				return func(id party.ID) protocol.StartFunc {
					switch v {
					case 2:
						return frost.Keygen(group, id, w.ids, 1)
					case 3:
						return frost.Refresh(fx.CloneFrost(fm2.Cfgs[id]), w.ids)
					}
					return frost.Refresh(fx.CloneFrost(fm.Cfgs[id]), w.ids)
				}
			}
			w.judge = func(t *vk.T, outs []fx.Outcome, tag string) {
				var shares []fx.Share
				for _, o := range outs {
					if c, ok := o.Value.(*frost.Config); ok {
						shares = append(shares, fx.ShareOfFrost(c))
					}
				}
				if len(shares) != len(outs) {
					t.Violation(proto+"|replay-changes-outcome|incomplete", "%s: %s", tag, fx.Describe(outs))
					return
				}
				if f, _ := fx.CheckMaterial(t.Rng, shares, &key, 10); len(f) > 0 {
					t.Violation(proto+"|replay-changes-outcome|"+f[0][0], "%s: %s", tag, f[0][1])
				}
			}
			break
		}
		w.names = []string{"victim", "other-session-id", "other-variant", "other-signer-set", "keygen-session"}
		w.sids = [][]byte{sid, sid2, sid, sid, sid}
		tap := proto == "taproot-sign"
		w.start = func(v int) func(id party.ID) protocol.StartFunc {
			return func(id party.ID) protocol.StartFunc {
				useTap := tap
				if v == 2 {
					useTap = !tap
				}
				S := w.ids
				if v == 3 {
					S = S2
				}
				if v == 4 {
					return frost.Keygen(group, id, w.ids, 1)
				}
				if useTap {
					return frost.SignTaproot(tm.Cfgs[id], S, msg)
				}
				return frost.Sign(fm.Cfgs[id], S, msg)
			}
		}
		w.judge = func(t *vk.T, outs []fx.Outcome, tag string) {
			k := key
			if tap {
				k = tkey
			}
			judge(t, proto+"|replay", outs, k, msg, tag, true)
		}
	case "doerner-keygen", "doerner-sign":
		w.two = true
		w.ids = fx.IDs(r, i%3, 2)
		dm, err := fx.NewDoernerMat(r, w.ids[0], w.ids[1], fx.Opt{})
		if err != nil {
			t.Inconclusive("keygen failed")
			return nil
		}
		msg := r.Bytes(32)
		key := dm.Shares()[0].GroupKey
		kg := func(id party.ID) protocol.StartFunc {
			if id == w.ids[0] {
				return doerner.Keygen(group, true, w.ids[0], w.ids[1], nil)
			}
			return doerner.Keygen(group, false, w.ids[1], w.ids[0], nil)
		}
		sg := func(m []byte) func(id party.ID) protocol.StartFunc {
			return func(id party.ID) protocol.StartFunc {
				if id == w.ids[0] {
					return doerner.SignReceiver(dm.K.R, w.ids[0], w.ids[1], m, nil)
				}
				return doerner.SignSender(dm.K.S, w.ids[1], w.ids[0], m, nil)
			}
		}
		if proto == "doerner-keygen" {
			w.lead = [2]bool{true, false}
			w.names = []string{"victim", "other-session-id", "sign-session-same-parties"}
			w.sids = [][]byte{sid, sid2, sid}
			w.start = func(v int) func(id party.ID) protocol.StartFunc {
				if v == 2 {
					return sg(msg)
				}
				return kg
			}
			w.judge = func(t *vk.T, outs []fx.Outcome, tag string) {
				k := &fx.DoernerKeys{RID: w.ids[0], SID: w.ids[1]}
				for _, o := range outs {
					switch c := o.Value.(type) {
					case *doerner.ConfigReceiver:
						k.R = c
					case *doerner.ConfigSender:
						k.S = c
					}
				}
				if k.R == nil || k.S == nil {
					t.Violation(proto+"|replay-changes-outcome|incomplete", "%s: %s", tag, fx.Describe(outs))
					return
				}
				if f, _ := fx.CheckMaterial(t.Rng, fx.SharesOfDoerner(k), nil, 1); len(f) > 0 {
					t.Violation(proto+"|replay-changes-outcome|"+f[0][0], "%s: %s", tag, f[0][1])
				}
			}
		} else {
			w.lead = [2]bool{true, true}
			w.names = []string{"victim", "other-session-id", "keygen-session-same-parties"}
			w.sids = [][]byte{sid, sid2, sid}
			w.start = func(v int) func(id party.ID) protocol.StartFunc {
				if v == 2 {
					return kg
				}
				return sg(msg)
			}
			w.judge = func(t *vk.T, outs []fx.Outcome, tag string) { judge(t, proto+"|replay", outs, key, msg, tag, true) }
		}
	case "cmp-sign":
		fx.InstallPrimeHook()
		fx.SetPrimeOffset(uint64(r.Intn(1000)))
		w.ids = fx.IDs(r, i%3, 2)
		cm := fx.NewCMPMatDealt(w.ids, 1)
		cm2 := fx.NewCMPMatDealt(w.ids, 1)
		msg, msg2 := r.Bytes(32), r.Bytes(32)
		key := cm.Shares()[0].GroupKey
		w.names = []string{"victim", "other-session-id", "other-message", "other-key-material", "presign-full-same-inputs"}
		w.sids = [][]byte{sid, sid2, sid, sid, sid}
		w.start = func(v int) func(id party.ID) protocol.StartFunc {
			return func(id party.ID) protocol.StartFunc {
				switch v {
				case 2:
					return cmp.Sign(cm.Cfgs[id], w.ids, msg2, nil)
				case 3:
					return cmp.Sign(cm2.Cfgs[id], w.ids, msg, nil)
				case 4:
					return presign.StartPresign(cm.Cfgs[id], w.ids, msg, nil)
				}
				return cmp.Sign(cm.Cfgs[id], w.ids, msg, nil)
			}
		}
		w.judge = func(t *vk.T, outs []fx.Outcome, tag string) { judge(t, proto+"|replay", outs, key, msg, tag, true) }
	}
	return w
}

func (w *replayWorld) run(t *vk.T, v int, prep func(n *sim.Net)) (*sim.Net, []fx.Outcome, error) {
	opt := fx.Opt{SessionID: w.sids[v], Prepare: prep}
	if w.two {
		return fx.RunTwo(t.Rng, w.ids[0], w.ids[1], w.start(v)(w.ids[0]), w.start(v)(w.ids[1]), w.lead[0], w.lead[1], opt)
	}
	ids := w.ids
	if a, ok := w.alt[v]; ok {
		ids = a
	}
	return fx.RunMulti(t.Rng, ids, w.start(v), opt)
}

func c09Replay(t *vk.T, proto string, i int) {
	w := c09World(t, proto, i)
	if w == nil {
		return
	}
	r := t.Rng
	for v := 1; v < len(w.names); v++ {
		// collect every wire message of session A (variant v)
		var wire [][]byte
		_, _, err := w.run(t, v, func(n *sim.Net) {
			n.OnDeliver = func(_ *sim.Net, d *sim.Delivery) []*sim.Delivery {
				wire = append(wire, d.Bytes)
				return []*sim.Delivery{d}
			}
		})
		if err != nil || len(wire) == 0 {
			t.Obs("replay_sources_unavailable", 1)
			continue
		}
		// the same other session once more, this time stopped by one of its users: its abort notices are messages of
		// that session too
		nAbort := 0
		_, _, _ = w.run(t, v, func(n *sim.Net) {
			n.OnDeliver = func(_ *sim.Net, d *sim.Delivery) []*sim.Delivery {
				if d.Round == 0 {
					wire = append(wire, d.Bytes)
					nAbort++
				}
				return []*sim.Delivery{d}
			}
			if len(n.Parties) > 0 {
				n.Parties[r.Intn(len(n.Parties))].H.Stop()
			}
		})
		t.Obs("foreign_abort_notices_collected", int64(nAbort))
		// dedupe
		seen := map[string]bool{}
		var msgs []*protocol.Message
		for _, b := range wire {
			if !seen[string(b)] {
				seen[string(b)] = true
				msgs = append(msgs, sim.Decode(b))
			}
		}
		forced := 0
		offered := 0
		accepted := false
		tag := fmt.Sprintf("%s victim vs %s", proto, w.names[v])
		_, outs, err := w.run(t, 0, func(n *sim.Net) {
			probe := func(n *sim.Net) {
				for _, p := range n.Parties {
					for _, m := range msgs {
						offered++
						can := false
						vk.Guard(func() { can = p.H.CanAccept(m) })
						if can {
							accepted = true
							t.Violation(proto+"|foreign-message-acceptable|"+w.names[v], "%s: CanAccept is true at %q for a round-%d message of the other session (from %q)", tag, p.ID, m.RoundNumber, m.From)
						}
						if r.Intn(100) < 4 {
							forced++
							c := *m
							n.AcceptWithDrain(p, &c)
						}
					}
				}
				n.DrainAll()
			}
			probe(n)
			n.AfterStep = probe
		})
		t.Obs("evaluations", 1)
		t.Obs("foreign_messages_offered", int64(offered))
		t.Obs("foreign_messages_force_delivered", int64(forced))
		if err != nil {
			t.Inconclusive("%s: victim session did not start: %v", tag, err)
			continue
		}
		t.Distinct("replay|%s|%s", proto, w.names[v])
		_ = accepted
		w.judge(t, outs, tag)
		if v == 1 && i == 0 {
			t.Sample(map[string]any{"kind": "cross-session replay", "victim": proto, "other": w.names[v], "foreign_messages": len(msgs), "offered": offered, "force_delivered": forced})
		}
	}
}

// ---------- (3) proof / commitment transfer ----------

type transferPlan struct {
	rounds  []int       // proof- or commitment-carrying rounds that can be substituted
	failAt  map[int]int // round at which the substitution must have been refused (default: the round itself)
	final   int
}

func c09Transfer(t *vk.T, proto string, i int, env vk.Env) {
	r := t.Rng
	ids := fx.IDs(r, i%3, 3)
	var startB, startA func(id party.ID) protocol.StartFunc
	plan := transferPlan{failAt: map[int]int{}}
	switch proto {
	case "frost-keygen":
		startB = func(id party.ID) protocol.StartFunc { return frost.Keygen(group, id, ids, 1) }
		startA = startB
		plan.rounds, plan.final = []int{2, 3}, 3
	case "taproot-keygen":
		startB = func(id party.ID) protocol.StartFunc { return frost.KeygenTaproot(id, ids, 1) }
		startA = startB
		plan.rounds, plan.final = []int{2, 3}, 3
	case "frost-refresh":
		fm, err := fx.NewFrostMat(r, ids, 1, fx.Opt{})
		if err != nil {
			t.Inconclusive("keygen: %v", err)
			return
		}
		startB = func(id party.ID) protocol.StartFunc { return frost.Refresh(fx.CloneFrost(fm.Cfgs[id]), ids) }
		startA = startB
		plan.rounds, plan.final = []int{2, 3}, 3
		plan.failAt[2] = 3 // a refresh has no Schnorr proof in round 2, only the commitment opened in round 3
	case "cmp-keygen":
		fx.InstallPrimeHook()
		fx.SetPrimeOffset(uint64(r.Intn(1000)))
		startB = func(id party.ID) protocol.StartFunc { return cmp.Keygen(group, id, ids, 1, nil) }
		startA = startB
		plan.rounds, plan.final = []int{2, 3, 4, 5}, 5
		plan.failAt[2] = 3 // round 2 carries only an opaque commitment; it is opened (and must fail) in round 3
	case "cmp-sign":
		fx.InstallPrimeHook()
		fx.SetPrimeOffset(uint64(r.Intn(1000)))
		cm := fx.NewCMPMatDealt(ids, 1)
		msg := r.Bytes(32)
		startB = func(id party.ID) protocol.StartFunc { return cmp.Sign(cm.Cfgs[id], ids, msg, nil) }
		startA = startB
		plan.rounds, plan.final = []int{2, 3, 4}, 5
	}
	k := plan.rounds[(i/2)%len(plan.rounds)]
	kind := []string{"other-sender-same-session", "own-message-other-session"}[i%2]
	ci := (i / 3) % 3
	C := ids[ci]
	var honest []party.ID
	for _, id := range ids {
		if id != C {
			honest = append(honest, id)
		}
	}
	sidB := r.Bytes(6)
	type slot struct {
		bcast bool
		to    party.ID
	}
	donor := map[slot][]byte{}
	if kind == "own-message-other-session" {
		_, _, err := fx.RunMulti(r, ids, startA, fx.Opt{SessionID: append([]byte("other-"), sidB...), Prepare: func(n *sim.Net) {
			n.OnEmit = func(_ *sim.Net, from *sim.Party, m *protocol.Message) bool {
				if from.ID == C && int(m.RoundNumber) == k {
					donor[slot{m.Broadcast, m.To}] = append([]byte{}, m.Data...)
				}
				return true
			}
		}})
		if err != nil || len(donor) == 0 {
			t.Inconclusive("donor session produced nothing: %v", err)
			return
		}
	}
	var held []*protocol.Message
	substituted := false
	subCount := 0
	n, outs, err := fx.RunMulti(r, ids, startB, fx.Opt{SessionID: sidB, Prepare: func(n *sim.Net) {
		n.OnEmit = func(_ *sim.Net, from *sim.Party, m *protocol.Message) bool {
			if int(m.RoundNumber) != k {
				return true
			}
			if from.ID == C {
				if substituted {
					return true
				}
				held = append(held, m)
				return false
			}
			if kind == "other-sender-same-session" {
				// an honest party's round-k message: a possible donor. For p2p the donor of C->R is the other honest party's message to R.
				if m.Broadcast {
					if _, ok := donor[slot{true, ""}]; !ok {
						donor[slot{true, ""}] = append([]byte{}, m.Data...)
					}
				} else if m.To != C {
					donor[slot{false, m.To}] = append([]byte{}, m.Data...)
				}
			}
			return true
		}
		// hold back what C would receive for round >= k until the substitution is done, so that C's own view stays consistent
		n.Sched = func(n *sim.Net) int {
			if !substituted {
				for idx, d := range n.Pending {
					if !(d.To == C && d.Round >= k) {
						return idx
					}
				}
				// only held deliveries remain: every honest party has emitted its round-k messages
				cp := n.Party(C)
				for _, m := range held {
					key := slot{m.Broadcast, m.To}
					if !m.Broadcast && kind == "other-sender-same-session" {
						key = slot{false, m.To}
					}
					if d, ok := donor[key]; ok {
						m.Data = append([]byte{}, d...) // in place: C's own stored broadcast changes with it (echo-consistent)
						subCount++
					}
					n.Release(cp, m)
				}
				held = nil
				substituted = true
			}
			return 0
		}
	}})
	if err != nil {
		t.Inconclusive("session did not start: %v", err)
		return
	}
	_ = n
	t.Obs("evaluations", 1)
	if subCount == 0 {
		t.Inconclusive("%s round %d %s: nothing was substituted", proto, k, kind)
		return
	}
	t.Obs("messages_substituted", int64(subCount))
	t.Distinct("transfer|%s|round=%d|%s|corrupt-position=%d", proto, k, kind, ci)
	failRound := k
	if f, ok := plan.failAt[k]; ok {
		failRound = f
	}
	want := fmt.Sprintf("round %d:", failRound)
	for _, o := range outs {
		if o.ID == C {
			continue
		}
		tag := fmt.Sprintf("%s: messages of corrupted %q in round %d replaced by %s", proto, C, k, kind)
		switch o.State {
		case "done":
			t.Violation("transfer|"+proto+"|accepted-and-finished|"+kind, "%s: honest party %q finished successfully", tag, o.ID)
		case "running":
			// waiting for ever is allowed by the statement only if the transferred message was ignored; with the
			// substitution delivered in C's slot it means the message was stored and the session went on
			t.Obs("honest_left_waiting", 1)
		case "failed":
			e := o.Err.Error()
			if !containsStr(e, want) {
				t.Violation(fmt.Sprintf("transfer|%s|round-%d|not-refused-where-verified|%s", proto, k, kind), "%s: honest party %q only failed later or elsewhere: %s", tag, o.ID, truncStr(e, 200))
			} else {
				t.Obs("transfers_refused_at_verification", 1)
			}
		}
	}
	if i < 2 {
		t.Sample(map[string]any{"kind": "transfer", "protocol": proto, "round": k, "transfer": kind, "corrupted": string(C), "substituted": subCount, "honest": fx.Describe(outs)})
	}
}

func containsStr(s, sub string) bool { return len(sub) == 0 || (len(s) >= len(sub) && indexOf(s, sub) >= 0) }
func indexOf(s, sub string) int {
	for i := 0; i+len(sub) <= len(s); i++ {
		if s[i:i+len(sub)] == sub {
			return i
		}
	}
	return -1
}
func truncStr(s string, n int) string {
	if len(s) > n {
		return s[:n]
	}
	return s
}
