//go:build verif

package checks

import (
	"reflect"
	"testing"

	"github.com/taurusgroup/multi-party-sig/pkg/party"
	"github.com/taurusgroup/multi-party-sig/verif/fx"
	"github.com/taurusgroup/multi-party-sig/verif/vk"
)

// The codec-independent deep copy must produce equal, unaliased objects for every kind of key material.
func TestDeepCopyKeyMaterial(t *testing.T) {
	r := vk.NewRand(5)
	ids := []party.ID{"a", "b", "c"}
	fm, err := fx.NewFrostMat(r, ids, 1, fx.Opt{})
	if err != nil {
		t.Fatal(err)
	}
	tm, err := fx.NewTaprootMat(r, ids, 1, fx.Opt{})
	if err != nil {
		t.Fatal(err)
	}
	dm, err := fx.NewDoernerMat(r, ids[0], ids[1], fx.Opt{})
	if err != nil {
		t.Fatal(err)
	}
	fx.InstallPrimeHook()
	cm := fx.NewCMPMatDealt(ids, 1)
	objs := []interface{}{fm.Cfgs["a"], tm.Cfgs["b"], dm.K.R, dm.K.S, cm.Cfgs["c"]}
	for _, o := range objs {
		c := fx.DeepCopy(o)
		if d := deepDiff(reflect.ValueOf(o), reflect.ValueOf(c), "", 0); d != "" {
			t.Errorf("%T: copy differs at %s", o, d)
		}
		if reflect.ValueOf(o).Pointer() == reflect.ValueOf(c).Pointer() {
			t.Errorf("%T: copy aliases the original", o)
		}
	}
	// mutation of the copy leaves the original alone
	c := fx.CloneCMP(cm.Cfgs["a"])
	before := fx.ShareOfCMP(cm.Cfgs["a"]).Secret.String()
	c.ECDSA.Add(c.ECDSA)
	if fx.ShareOfCMP(cm.Cfgs["a"]).Secret.String() != before {
		t.Error("cmp copy shares its secret scalar with the original")
	}
	f := fx.CloneFrost(fm.Cfgs["a"])
	fb := fx.ShareOfFrost(fm.Cfgs["a"]).Secret.String()
	f.PrivateShare.Add(f.PrivateShare)
	if fx.ShareOfFrost(fm.Cfgs["a"]).Secret.String() != fb {
		t.Error("frost copy shares its secret scalar with the original")
	}
}
