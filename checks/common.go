// Package checks holds the child workloads, one file per property.
package checks

import (
	"fmt"
	"math/big"

	"github.com/cronokirby/saferith"
	"github.com/taurusgroup/multi-party-sig/pkg/math/curve"
	"github.com/taurusgroup/multi-party-sig/verif/ref"
	"github.com/taurusgroup/multi-party-sig/verif/vk"
)

var group = curve.Secp256k1{}

// PtOf converts a library point to a reference point through its encoding.
func PtOf(p curve.Point) (ref.Pt, error) {
	if p == nil {
		return ref.Pt{}, fmt.Errorf("nil point")
	}
	if p.IsIdentity() {
		return ref.Infinity(), nil
	}
	b, err := p.MarshalBinary()
	if err != nil {
		return ref.Pt{}, err
	}
	return ref.Decompress(b)
}

func mustPt(p curve.Point) ref.Pt {
	r, err := PtOf(p)
	if err != nil {
		panic(err)
	}
	return r
}

// IntOf converts a library scalar to a big integer through its encoding.
func IntOf(s curve.Scalar) *big.Int {
	b, err := s.MarshalBinary()
	if err != nil {
		panic(err)
	}
	return new(big.Int).SetBytes(b)
}

// LibScalar builds a library scalar from a big integer (reduced mod q).
func LibScalar(x *big.Int) curve.Scalar {
	m := new(big.Int).Mod(x, ref.Q)
	return group.NewScalar().SetNat(new(saferith.Nat).SetBig(m, 256))
}

// LibPoint builds a library point from a reference point (not infinity).
func LibPoint(p ref.Pt) curve.Point {
	out := group.NewPoint()
	if p.Inf {
		return out
	}
	if err := out.UnmarshalBinary(p.Compress()); err != nil {
		panic(err)
	}
	return out
}

func randScalarBig(r *vk.Rand) *big.Int {
	for {
		x := new(big.Int).SetBytes(r.Bytes(32))
		x.Mod(x, ref.Q)
		if x.Sign() != 0 {
			return x
		}
	}
}

func hex8(b []byte) string {
	if len(b) > 8 {
		b = b[:8]
	}
	return fmt.Sprintf("%x", b)
}
