package checks

import (
	"fmt"
	"runtime"
	"strings"
	"sync"
	"sync/atomic"
	"time"

	"github.com/anishathalye/porcupine"
	"github.com/taurusgroup/multi-party-sig/pkg/party"
	"github.com/taurusgroup/multi-party-sig/pkg/pool"
	"github.com/taurusgroup/multi-party-sig/pkg/protocol"
	"github.com/taurusgroup/multi-party-sig/protocols/cmp"
	"github.com/taurusgroup/multi-party-sig/protocols/doerner"
	"github.com/taurusgroup/multi-party-sig/protocols/frost"
	"github.com/taurusgroup/multi-party-sig/verif/adv"
	"github.com/taurusgroup/multi-party-sig/verif/detproto"
	"github.com/taurusgroup/multi-party-sig/verif/fx"
	"github.com/taurusgroup/multi-party-sig/verif/sim"
	"github.com/taurusgroup/multi-party-sig/verif/vk"
)

func init() {
	vk.Register(&vk.Check{
		ID:    "C17",
		Level: "exploration",
		Race:  true,
		Rule: "sessions of a deterministic protocol, FROST keygen/sign, Doerner keygen/sign and CMP sign (with a worker pool) in which every party's handler is driven by several goroutines at once: feeders calling CanAccept+Accept on the party's inbox in random order with duplicates, a drainer ranging over Listen(), pollers calling Result(), a stopper calling Stop() at a seeded point (before start, mid-session, at the end, twice), followed by seeded call sequences after the end; (a) the binary is built with the race detector and every report whose two stacks are in repository code is a violation; (b) every API call is recorded with logical call/return timestamps and checked offline: no panic, the outgoing channel closes exactly once and only when Result is terminal, Result is linearizable against a write-once model (running -> terminal once; Stop forces terminal; terminal values never change; never value and error), nothing is emitted after the end, and no call stays blocked while the channel is drained; " +
			"distinct non-trivial = distinct (protocol, goroutine count, stop point, post-sequence) runs whose history was checked, plus distinct linearization verdicts",
		MinDistinct:  25,
		Assumptions:  []string{"each party owns its objects (messages are re-encoded per recipient), so every race report concerns one handler or library-internal sharing", "porcupine v1.3.0 decides the write-once model; a checker timeout is inconclusive"},
		Cases:        c17Cases,
		CaseTimeoutS: 2400,
		Workers:      6,
	})
}

type hOp struct {
	Proc int
	Op   string // result | canaccept | accept | stop | listen-closed | emit
	Call int64
	Ret  int64
	Out  string
}

type hWrap struct {
	id     party.ID
	h      protocol.Handler
	clock  *int64
	mu     sync.Mutex
	ops    []hOp
	wedged int32
	dump   string
}

const c17CallWatchdog = 15 * time.Second

// state is Result() through the watchdog ("running", a terminal descriptor, BLOCKED or SKIPPED).
func (w *hWrap) state() string {
	return w.do(71, "result", func() string { return resultString(w.h) })
}

// do runs one API call on its own goroutine under a watchdog: a call that does not return is recorded as BLOCKED
// (with a goroutine dump taken at that moment) and the handler is treated as wedged from then on.
func (w *hWrap) do(proc int, op string, f func() string) string {
	if atomic.LoadInt32(&w.wedged) == 1 {
		return "SKIPPED"
	}
	call := atomic.AddInt64(w.clock, 1)
	out := ""
	done := make(chan string, 1)
	go func() {
		o := ""
		defer func() {
			if r := recover(); r != nil {
				o = "PANIC: " + truncStr(fmt.Sprint(r), 120)
			}
			done <- o
		}()
		o = f()
	}()
	// A call is BLOCKED only when it is provably so: two consecutive dumps, taken c17CallWatchdog apart, in which every
	// goroutine inside a handler method is parked and none is active.  A slow call (CMP under the race detector on a
	// loaded machine) keeps being waited for; the hard cap ends in an inconclusive TIMEOUT.
	provable := 0
waiting:
	for round := 0; ; round++ {
		select {
		case out = <-done:
			break waiting
		case <-time.After(c17CallWatchdog):
			buf := make([]byte, 1<<20)
			k := runtime.Stack(buf, true)
			d := string(buf[:k])
			pk, act := handlerGoroutines(d)
			if pk > 0 && act == 0 {
				provable++
			} else {
				provable = 0
			}
			if provable >= 2 {
				if atomic.CompareAndSwapInt32(&w.wedged, 0, 1) {
					w.mu.Lock()
					w.dump = d
					w.mu.Unlock()
				}
				out = "BLOCKED"
				break waiting
			}
			if round > 60 {
				atomic.StoreInt32(&w.wedged, 1)
				out = "TIMEOUT"
				break waiting
			}
		}
	}
	ret := atomic.AddInt64(w.clock, 1)
	w.mu.Lock()
	w.ops = append(w.ops, hOp{proc, op, call, ret, out})
	w.mu.Unlock()
	return out
}

func resultString(h protocol.Handler) string {
	v, err := h.Result()
	switch {
	case v != nil && err != nil:
		return "BOTH value and error"
	case v != nil:
		return "value:" + fmt.Sprintf("%T/%x", v, fx.SigBytes(v))
	case err != nil && strings.Contains(err.Error(), "protocol: not finished"):
		return "running"
	case err != nil:
		return "error:" + truncStr(err.Error(), 100)
	}
	return "NEITHER value nor error"
}

type c17Plan struct {
	proto    string
	feeders  int
	stopAt   string // none | before | mid | end | after | twice
	post     int
	usePool  bool
	poison   bool // a feeder hands the handler a peer message with one field replaced by CBOR null (exercises the panic-recovery path under concurrency)
}

func c17Cases(env vk.Env) []vk.Case {
	var cs []vk.Case
	stops := []string{"none", "before", "mid", "mid", "end", "after", "twice"}
	protos := []string{"detproto", "frost-keygen", "frost-sign", "doerner-keygen", "doerner-sign"}
	i := 0
	for rep := 0; rep < env.Pick(2, 30); rep++ {
		for _, p := range protos {
			for _, st := range stops {
				pl := c17Plan{proto: p, feeders: 1 + (i % 4), stopAt: st, post: i % 5, poison: i%3 == 2 || (strings.HasPrefix(p, "doerner") && i%3 == 1)}
				i++
				pl2, idx := pl, i
				cs = append(cs, vk.Case{ID: fmt.Sprintf("%s/f%d/stop-%s/%d", p, pl.feeders, st, idx), Run: func(t *vk.T) { c17Run(t, pl2, idx) }})
			}
		}
	}
	for k := 0; k < env.Pick(12, 60); k++ { // recovery from a panicking message while other goroutines are inside the handler
		pl := c17Plan{proto: []string{"doerner-keygen", "doerner-sign", "frost-sign"}[k%3], feeders: 2 + k%3, stopAt: []string{"none", "mid", "none", "end"}[k%4], post: k % 3, poison: true}
		k := k
		cs = append(cs, vk.Case{ID: fmt.Sprintf("%s/poison/f%d/stop-%s/%d", pl.proto, pl.feeders, pl.stopAt, k), Run: func(t *vk.T) { c17Run(t, pl, 2000+k) }})
	}
	for k := 0; k < env.Pick(3, 12); k++ { // the other CMP protocols with a worker pool (parallel sections inside the rounds) under the race detector
		pl := c17Plan{proto: []string{"cmp-presign", "cmp-keygen", "cmp-refresh"}[k%3], feeders: 1 + k%3, stopAt: []string{"none", "none", "none", "mid", "after"}[k%5], post: k % 3, usePool: true}
		k := k
		cs = append(cs, vk.Case{ID: fmt.Sprintf("%s/f%d/stop-%s/%d", pl.proto, pl.feeders, pl.stopAt, k), Run: func(t *vk.T) { c17Run(t, pl, 3000+k) }})
	}
	for k := 0; k < env.Pick(2, 16); k++ {
		pl := c17Plan{proto: "cmp-sign", feeders: 2 + k%3, stopAt: []string{"none", "mid", "after", "twice"}[k%4], post: k % 5, usePool: true}
		k := k
		cs = append(cs, vk.Case{ID: fmt.Sprintf("cmp-sign/f%d/stop-%s/%d", pl.feeders, pl.stopAt, k), Run: func(t *vk.T) { c17Run(t, pl, 1000+k) }})
	}
	return cs
}

func c17Run(t *vk.T, pl c17Plan, idx int) {
	r := t.Rng
	n := 3
	ids := fx.IDs(r, idx%3, n)
	two := false
	leaders := map[party.ID]bool{}
	var start map[party.ID]protocol.StartFunc
	var pools []*pool.Pool
	mkAll := func(f func(id party.ID) protocol.StartFunc) {
		start = map[party.ID]protocol.StartFunc{}
		for _, id := range ids {
			start[id] = f(id)
		}
	}
	switch pl.proto {
	case "detproto":
		seed := r.Bytes(4)
		mkAll(func(id party.ID) protocol.StartFunc { return detproto.Start(id, ids, seed) })
	case "frost-keygen":
		mkAll(func(id party.ID) protocol.StartFunc { return frost.Keygen(group, id, ids, 1) })
	case "frost-sign":
		fm, err := fx.NewFrostMat(r, ids, 1, fx.Opt{})
		if err != nil {
			t.Inconclusive("keygen: %v", err)
			return
		}
		msg := r.Bytes(32)
		mkAll(func(id party.ID) protocol.StartFunc { return frost.Sign(fx.CloneFrost(fm.Cfgs[id]), ids, msg) })
	case "doerner-keygen":
		two = true
		ids = ids[:2]
		leaders = map[party.ID]bool{ids[0]: true, ids[1]: false}
		start = map[party.ID]protocol.StartFunc{ids[0]: doerner.Keygen(group, true, ids[0], ids[1], nil), ids[1]: doerner.Keygen(group, false, ids[1], ids[0], nil)}
	case "doerner-sign":
		two = true
		ids = ids[:2]
		dm, err := fx.NewDoernerMat(r, ids[0], ids[1], fx.Opt{})
		if err != nil {
			t.Inconclusive("keygen: %v", err)
			return
		}
		msg := r.Bytes(32)
		leaders = map[party.ID]bool{ids[0]: true, ids[1]: true}
		start = map[party.ID]protocol.StartFunc{ids[0]: doerner.SignReceiver(dm.K.R, ids[0], ids[1], msg, nil), ids[1]: doerner.SignSender(dm.K.S, ids[1], ids[0], msg, nil)}
	case "cmp-presign", "cmp-keygen", "cmp-refresh":
		fx.InstallPrimeHook()
		fx.SetPrimeOffset(uint64(r.Intn(1000)))
		ids = ids[:2]
		var cm *fx.CMPMat
		if pl.proto != "cmp-keygen" {
			cm = fx.NewCMPMatDealt(ids, 1)
		}
		start = map[party.ID]protocol.StartFunc{}
		for _, id := range ids {
			p := pool.NewPool(3)
			pools = append(pools, p)
			switch pl.proto {
			case "cmp-presign":
				start[id] = cmp.Presign(cm.Cfgs[id], ids, p)
			case "cmp-keygen":
				start[id] = cmp.Keygen(group, id, ids, 1, p)
			case "cmp-refresh":
				start[id] = cmp.Refresh(fx.CloneCMP(cm.Cfgs[id]), p)
			}
		}
	case "cmp-sign":
		fx.InstallPrimeHook()
		fx.SetPrimeOffset(uint64(r.Intn(1000)))
		ids = ids[:2]
		cm := fx.NewCMPMatDealt(ids, 1)
		msg := r.Bytes(32)
		start = map[party.ID]protocol.StartFunc{}
		for _, id := range ids {
			p := pool.NewPool(3)
			pools = append(pools, p)
			start[id] = cmp.Sign(cm.Cfgs[id], ids, msg, p)
		}
	}
	var clock int64
	wraps := map[party.ID]*hWrap{}
	inbox := map[party.ID]chan []byte{}
	var stopTarget party.ID = ids[r.Intn(len(ids))]
	var deliveries int64
	for _, id := range ids {
		var h protocol.Handler
		var err error
		if two {
			h, err = protocol.NewTwoPartyHandler(start[id], []byte("c17"), leaders[id])
		} else {
			h, err = protocol.NewMultiHandler(start[id], []byte("c17"))
		}
		if err != nil {
			t.Inconclusive("start: %v", err)
			return
		}
		wraps[id] = &hWrap{id: id, h: h, clock: &clock}
		inbox[id] = make(chan []byte, 4096)
	}
	if pl.stopAt == "before" {
		wraps[stopTarget].do(90, "stop", func() string { wraps[stopTarget].h.Stop(); return "" })
	}
	var wg sync.WaitGroup
	quit := make(chan struct{})
	var emittedAfterEnd int64
	closedAt := map[party.ID]*int64{}
	for _, id := range ids {
		closedAt[id] = new(int64) // filled before any goroutine starts: the monitor's own state must not race
	}
	var sessionOver int32
	poisonBudget, poisoned := int64(3), int64(0)
	// drainers
	for _, id := range ids {
		id := id
		w := wraps[id]
		wg.Add(1)
		go func() {
			defer wg.Done()
			ch := w.h.Listen()
			for m := range ch {
				ts := atomic.AddInt64(&clock, 1)
				if st := atomic.LoadInt64(closedAt[id]); st != 0 && ts > st {
					atomic.AddInt64(&emittedAfterEnd, 1)
				}
				b, err := m.MarshalBinary()
				if err != nil {
					continue
				}
				for _, other := range ids {
					if other != id && m.IsFor(other) {
						select {
						case inbox[other] <- b:
						default:
						}
					}
				}
			}
			ts := atomic.AddInt64(&clock, 1)
			atomic.StoreInt64(closedAt[id], ts)
			w.mu.Lock()
			w.ops = append(w.ops, hOp{80, "listen-closed", ts, ts, ""})
			w.mu.Unlock()
		}()
	}
	// feeders
	for _, id := range ids {
		id := id
		w := wraps[id]
		for f := 0; f < pl.feeders; f++ {
			f := f
			seed := r.U64()
			wg.Add(1)
			go func() {
				defer wg.Done()
				rr := vk.NewRand(seed)
				var seen [][]byte
				for {
					select {
					case <-quit:
						return
					case b := <-inbox[id]:
						m := sim.Decode(b)
						if pl.poison && rr.Intn(3) == 0 && atomic.AddInt64(&poisonBudget, -1) >= 0 {
							if vs, err := adv.Variants(m.Data, 3, false); err == nil {
								var nulls []adv.Variant
								for _, v := range vs {
									if v.Mutation == "null" {
										nulls = append(nulls, v)
									}
								}
								if len(nulls) > 0 {
									m.Data = nulls[rr.Intn(len(nulls))].Data
									atomic.AddInt64(&poisoned, 1)
								}
							}
						}
						w.do(f, "canaccept", func() string { return fmt.Sprint(w.h.CanAccept(m)) })
						w.do(f, "accept", func() string { w.h.Accept(m); return "" })
						atomic.AddInt64(&deliveries, 1)
						seen = append(seen, b)
						if rr.Intn(4) == 0 && len(seen) > 0 { // duplicate / stale re-delivery
							d := sim.Decode(seen[rr.Intn(len(seen))])
							w.do(f, "accept", func() string { w.h.Accept(d); return "" })
						}
					case <-time.After(2 * time.Millisecond):
						runtime.Gosched()
					}
				}
			}()
		}
		// poller
		wg.Add(1)
		go func() {
			defer wg.Done()
			for k := 0; ; k++ {
				select {
				case <-quit:
					return
				default:
				}
				w.do(70, "result", func() string { return resultString(w.h) })
				time.Sleep(time.Duration(200+k%7*100) * time.Microsecond)
			}
		}()
	}
	// stopper
	stopDone := make(chan struct{})
	go func() {
		defer close(stopDone)
		w := wraps[stopTarget]
		switch pl.stopAt {
		case "mid":
			thr := int64(1 + r.Intn(6))
			for atomic.LoadInt64(&deliveries) < thr {
				if atomic.LoadInt32(&sessionOver) == 1 {
					break // the session ended before the chosen point: Stop then arrives at the end
				}
				runtime.Gosched()
			}
			w.do(90, "stop", func() string { w.h.Stop(); return "" })
		case "end":
			for w.state() == "running" {
				if atomic.LoadInt32(&sessionOver) == 1 {
					break
				}
				time.Sleep(200 * time.Microsecond)
			}
			w.do(90, "stop", func() string { w.h.Stop(); return "" })
		}
	}()
	// wait for the session to end: all handlers terminal and inboxes empty, or a generous wall-clock bound
	deadline := time.Now().Add(4 * time.Minute)
	if strings.HasPrefix(pl.proto, "cmp-") {
		deadline = time.Now().Add(15 * time.Minute)
	}
	ended := false
	for time.Now().Before(deadline) {
		all := true
		for _, id := range ids {
			if wraps[id].state() == "running" || len(inbox[id]) > 0 {
				all = false
			}
		}
		if all {
			ended = true
			break
		}
		time.Sleep(2 * time.Millisecond)
	}
	atomic.StoreInt32(&sessionOver, 1)
	<-stopDone
	time.Sleep(5 * time.Millisecond)
	close(quit)
	// post-end call sequences
	w := wraps[stopTarget]
	if pl.stopAt == "after" || pl.stopAt == "twice" {
		w.do(91, "stop", func() string { w.h.Stop(); return "" })
	}
	if pl.stopAt == "twice" {
		w.do(91, "stop", func() string { w.h.Stop(); return "" })
	}
	for k := 0; k < pl.post*3; k++ {
		for _, id := range ids {
			ww := wraps[id]
			switch r.Intn(5) {
			case 0:
				ww.do(92, "accept", func() string { ww.h.Accept(nil); return "" })
			case 1:
				ww.do(92, "result", func() string { return resultString(ww.h) })
			case 2:
				ww.do(92, "canaccept", func() string { return fmt.Sprint(ww.h.CanAccept(&protocol.Message{From: ids[0], Data: []byte{1}})) })
			case 3:
				ww.do(92, "accept", func() string {
					ww.h.Accept(&protocol.Message{From: ids[0], To: id, Data: []byte("x"), RoundNumber: 0})
					return ""
				})
			case 4:
				ww.do(92, "listen", func() string { _ = ww.h.Listen(); return "" })
			}
		}
	}
	// stopping running sessions lets the drainers end
	finishWait := make(chan struct{})
	go func() { wg.Wait(); close(finishWait) }()
	blocked := false
	select {
	case <-finishWait:
	case <-time.After(20 * time.Second):
		// some handler never closed its channel (e.g. unfinished session): stop them and wait again
		for _, id := range ids {
			ww := wraps[id]
			if ww.state() == "running" {
				ww.do(93, "stop", func() string { ww.h.Stop(); return "" })
			}
		}
		select {
		case <-finishWait:
		case <-time.After(20 * time.Second):
			blocked = true
		}
	}
	if !blocked && ended {
		for _, p := range pools {
			p.TearDown() // only when nothing can still be using them
		}
	}
	t.Obs("evaluations", 1)
	t.Obs("poisoned_messages_delivered", atomic.LoadInt64(&poisoned))
	tag := fmt.Sprintf("%s feeders=%d stop=%s at %q post=%d poison=%v", pl.proto, pl.feeders, pl.stopAt, stopTarget, pl.post, pl.poison)
	if !ended && pl.stopAt == "none" {
		t.Inconclusive("%s: session did not end within the wall-clock bound", tag)
	}
	if blocked {
		// logical decision: every goroutine inside a handler method is parked, none is making progress, in 5 consecutive dumps
		stable := 0
		for k := 0; k < 60 && stable < 5; k++ {
			buf := make([]byte, 1<<20)
			kk := runtime.Stack(buf, true)
			pk, act := handlerGoroutines(string(buf[:kk]))
			if pk > 0 && act == 0 {
				stable++
			} else {
				stable = 0
				select {
				case <-finishWait:
					blocked = false
				default:
				}
				if !blocked {
					break
				}
			}
			time.Sleep(500 * time.Millisecond)
		}
		if blocked && stable >= 5 {
			t.Violation(pl.proto+"|call-blocked-forever|stop="+pl.stopAt, "%s: a goroutine is still parked inside a handler call (or the outgoing channel never closed after Stop) while the channel is being drained", tag)
			return
		}
		if blocked {
			// not provably blocked: the recorded histories are still judged below (e.g. a channel that never closes)
			t.Inconclusive("%s: goroutines did not finish within the wall-clock bound (still active, no provable block)", tag)
		}
	}
	// ---- offline checks over the histories
	for _, id := range ids {
		ww := wraps[id]
		ww.mu.Lock()
		ops := append([]hOp{}, ww.ops...)
		ww.mu.Unlock()
		t.Obs("api_events", int64(len(ops)))
		var closedTs int64
		for _, o := range ops {
			if o.Out == "BLOCKED" {
				ww.mu.Lock()
				d := ww.dump
				ww.mu.Unlock()
				pk, act := handlerGoroutines(d)
				_ = act
				if pk > 0 {
					t.Violation(pl.proto+"|call-blocked-forever|"+o.Op+"|stop="+pl.stopAt, "%s: %s on %q never returned: the goroutine dump shows callers parked on the handler's mutex while the outgoing channel is being drained", tag, o.Op, id)
				} else {
					t.Inconclusive("%s: %s on %q did not return within the watchdog, without a provable block", tag, o.Op, id)
				}
				break
			}
		}
		for _, o := range ops {
			if o.Out == "TIMEOUT" {
				t.Inconclusive("%s: %s on %q exceeded the hard wall-clock cap while still active", tag, o.Op, id)
				break
			}
		}
		for _, o := range ops {
			if strings.HasPrefix(o.Out, "PANIC") {
				t.Violation(pl.proto+"|panic|"+o.Op+"|stop="+pl.stopAt, "%s: %s on %q panicked: %s", tag, o.Op, id, o.Out)
			}
			if o.Op == "listen-closed" {
				closedTs = o.Call
			}
			if strings.HasPrefix(o.Out, "BOTH") || strings.HasPrefix(o.Out, "NEITHER") {
				t.Violation(pl.proto+"|result-ill-formed", "%s: Result on %q returned %s", tag, id, o.Out)
			}
		}
		final := ww.state()
		if strings.Contains(final, "panic while processing") {
			t.Obs("sessions_ended_by_recovered_panic|"+pl.proto, 1)
		}
		if closedTs == 0 && final != "running" && final != "BLOCKED" && final != "SKIPPED" && final != "TIMEOUT" {
			t.Violation(pl.proto+"|terminal-but-channel-open|stop="+pl.stopAt, "%s: %q is terminal (%s) but its outgoing channel was never closed", tag, id, truncStr(final, 60))
		}
		for _, o := range ops {
			if o.Op == "result" && closedTs != 0 && o.Call > closedTs && o.Out == "running" {
				t.Violation(pl.proto+"|closed-but-not-finished|stop="+pl.stopAt, "%s: the drainer saw %q's channel closed, yet a later Result says not finished", tag, id)
				break
			}
		}
		// a Stop that returned must leave the handler terminal
		for _, o := range ops {
			if o.Op == "stop" {
				for _, q := range ops {
					if q.Op == "result" && q.Call > o.Ret && q.Out == "running" {
						t.Violation(pl.proto+"|stop-without-effect|stop="+pl.stopAt, "%s: Stop returned on %q, yet a later Result says not finished", tag, id)
						goto linear
					}
				}
			}
		}
	linear:
		// write-once linearizability of Result / Accept / Stop
		var pops []porcupine.Operation
		for _, o := range ops {
			switch o.Op {
			case "result", "accept", "stop":
				if strings.HasPrefix(o.Out, "PANIC") || o.Out == "BLOCKED" || o.Out == "SKIPPED" || o.Out == "TIMEOUT" {
					continue
				}
				pops = append(pops, porcupine.Operation{ClientId: o.Proc % 100, Input: o.Op, Call: o.Call, Output: o.Out, Return: o.Ret})
			}
		}
		if len(pops) > 400 {
			// keep the history checkable: all accept/stop operations, and a thinned set of result polls
			var thin []porcupine.Operation
			k := 0
			for _, o := range pops {
				if o.Input.(string) != "result" || k%(len(pops)/300+1) == 0 {
					thin = append(thin, o)
				}
				k++
			}
			pops = thin
		}
		res := porcupine.CheckOperationsTimeout(lifecycleModel, pops, 60*time.Second)
		t.Obs("histories_checked", 1)
		t.Obs("history_ops", int64(len(pops)))
		switch res {
		case porcupine.Illegal:
			t.Violation(pl.proto+"|result-not-write-once|stop="+pl.stopAt, "%s: the Result/Accept/Stop history of %q is not linearizable against the write-once lifecycle model (a terminal result changed or reverted to running)", tag, id)
		case porcupine.Unknown:
			t.Inconclusive("%s: linearizability checker timed out on %d operations", tag, len(pops))
		}
	}
	if emittedAfterEnd > 0 {
		t.Violation(pl.proto+"|message-emitted-after-close", "%s: %d messages appeared on an outgoing channel after it was seen closed", tag, emittedAfterEnd)
	}
	t.Distinct("%s|feeders=%d|stop=%s|post=%d|poison=%v", pl.proto, pl.feeders, pl.stopAt, pl.post, pl.poison)
	if idx%17 == 0 {
		w0 := wraps[ids[0]]
		w0.mu.Lock()
		nops := len(w0.ops)
		var first []string
		for _, o := range w0.ops {
			if len(first) < 8 {
				first = append(first, fmt.Sprintf("%d:%s@%d-%d=%s", o.Proc, o.Op, o.Call, o.Ret, truncStr(o.Out, 24)))
			}
		}
		w0.mu.Unlock()
		t.Sample(map[string]any{"protocol": pl.proto, "feeders": pl.feeders, "stop": pl.stopAt, "api_events_party0": nops, "history_prefix": first})
	}
}

// handlerGoroutines classifies the goroutines of a dump that are inside handler methods: parked for good on the
// handler's mutex / channel, or active (running, runnable, in a syscall, or sleeping in library code they called).
func handlerGoroutines(dump string) (parked, active int) {
	for _, g := range strings.Split(dump, "\n\n") {
		if !strings.Contains(g, "pkg/protocol.(*MultiHandler)") && !strings.Contains(g, "pkg/protocol.(*TwoPartyHandler)") {
			continue
		}
		m := stateRe.FindStringSubmatch(g)
		if m == nil {
			continue
		}
		st := m[1]
		switch {
		case strings.HasPrefix(st, "sync.Mutex.Lock"), strings.HasPrefix(st, "semacquire"), strings.HasPrefix(st, "chan send"), strings.HasPrefix(st, "chan receive"):
			// parked inside library code below the handler (e.g. a pool call) is activity of the lock holder, not a block
			if strings.Contains(g, "pkg/pool.") {
				active++
			} else {
				parked++
			}
		default:
			active++
		}
	}
	return
}

// lifecycleModel: state "R" (running) or "T:<value>" (terminal; "T:?" = terminal, value not yet observed).
var lifecycleModel = (&porcupine.NondeterministicModel{
	Init: func() []interface{} { return []interface{}{"R"} },
	Step: func(state, input, output interface{}) []interface{} {
		st := state.(string)
		out := output.(string)
		switch input.(string) {
		case "accept":
			if st == "R" {
				return []interface{}{"R", "T:?"}
			}
			return []interface{}{st}
		case "stop":
			if st == "R" {
				return []interface{}{"T:?"}
			}
			return []interface{}{st}
		case "result":
			switch {
			case st == "R":
				if out == "running" {
					return []interface{}{"R"}
				}
				return nil
			case st == "T:?":
				if out == "running" {
					return nil
				}
				return []interface{}{"T:" + out}
			default:
				if "T:"+out == st {
					return []interface{}{st}
				}
				return nil
			}
		}
		return nil
	},
	Equal: func(a, b interface{}) bool { return a.(string) == b.(string) },
}).ToModel()
