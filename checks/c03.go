package checks

import (
	"fmt"

	"github.com/taurusgroup/multi-party-sig/verif/vk"
)

func init() {
	vk.Register(&vk.Check{
		ID:    "C03",
		Level: "fault_enumeration",
		Rule: "the honest transcript of every protocol is recorded and a fault catalogue derived mechanically from it: for every message the corrupted participant sends, every leaf of its CBOR tree x typed alterations (boundary values, negation, generator/identity, +-1, random of the same size, the same-sized value of another message of the transcript, bit flip, truncation) x delivery mode (echo-consistent: the sender's own stored broadcast is altered too; wire-only: one recipient's copy), plus whole-message substitutions (previous round, other session, other kind, other recipient's message, empty recipient header), crafted deviations (a VSS share of the own polynomial at 0 with an empty recipient, another recipient's share) and a state-level one (sharing polynomial of degree t+1 / t-1 with all messages consistent); one fault per run through the real handlers; oracle: every honest party is unfinished, failed, or holds a result that is correct (independent verifier) and consistent with every other honest finisher; " +
			"distinct non-trivial = distinct (protocol, corrupted position, round, kind, field path, alteration, mode) runs in which the fault was actually applied",
		MinDistinct:  150,
		Assumptions:  []string{"one deviating participant, authenticated channels", "a panic of an honest party counts as 'did not finish' here (it is judged by C05)"},
		Cases:        c03Cases,
		CaseTimeoutS: 3000,
	})
}

func campaignCases(which string, env vk.Env) []vk.Case {
	var cs []vk.Case
	for _, p := range cheapProtos {
		positions := env.Pick(2, 3)
		parts := 2
		for pos := 0; pos < positions; pos++ {
			for part := 0; part < parts; part++ {
				p, pos, part := p, pos, part
				n := 3
				cs = append(cs, vk.Case{ID: fmt.Sprintf("%s/pos%d/part%d", p, pos, part), Run: func(t *vk.T) { runCampaign(t, which, p, n, pos, env.Pick(120, 0), part, parts) }})
			}
		}
		if env.Thorough() {
			for part := 0; part < 2; part++ {
				p, part := p, part
				cs = append(cs, vk.Case{ID: fmt.Sprintf("%s/n4/part%d", p, part), Run: func(t *vk.T) { runCampaign(t, which, p, 4, 1, 0, part, 2) }})
			}
		}
	}
	for _, p := range cmpProtos {
		parts := env.Pick(3, 12)
		for part := 0; part < parts; part++ {
			p, part := p, part
			pos := part % 3
			cs = append(cs, vk.Case{ID: fmt.Sprintf("%s/pos%d/part%d", p, pos, part), Run: func(t *vk.T) { runCampaign(t, which, p, 3, pos, env.Pick(6, 0), part, parts) }})
		}
	}
	// state-level deviation: a polynomial with a root at the victim's identifier, the victim's share off by one
	for pos := 0; pos < env.Pick(2, 8); pos++ {
		pos := pos
		cs = append(cs, vk.Case{ID: fmt.Sprintf("root-at-victim/cmp-keygen/pos%d", pos), Run: func(t *vk.T) { c03RootAtVictim(t, pos) }})
	}
	return cs
}

func c03Cases(env vk.Env) []vk.Case {
	cs := campaignCases("C03", env)
	// state-level deviation: a sharing polynomial of the wrong degree, all messages consistent with it
	for pos := 0; pos < env.Pick(4, 16); pos++ {
		pos := pos
		for _, p := range []string{"frost-keygen", "taproot-keygen", "frost-refresh", "taproot-refresh"} {
			p := p
			cs = append(cs, vk.Case{ID: fmt.Sprintf("degree+1/%s/pos%d", p, pos), Run: func(t *vk.T) { c03Degree(t, p, pos, 3+pos%2, 1, +1) }})
			cs = append(cs, vk.Case{ID: fmt.Sprintf("degree-1/%s/pos%d", p, pos), Run: func(t *vk.T) { c03Degree(t, p, pos, 3+pos%2, 2, -1) }})
		}
	}
	for pos := 0; pos < env.Pick(1, 4); pos++ {
		pos := pos
		for _, p := range []string{"cmp-keygen", "cmp-refresh"} {
			p := p
			cs = append(cs, vk.Case{ID: fmt.Sprintf("degree+1/%s/pos%d", p, pos), Run: func(t *vk.T) { c03Degree(t, p, pos, 3, 1, +1) }})
			cs = append(cs, vk.Case{ID: fmt.Sprintf("degree-1/%s/pos%d", p, pos), Run: func(t *vk.T) { c03Degree(t, p, pos, 3, 2, -1) }})
		}
	}
	return cs
}
