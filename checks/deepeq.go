package checks

import (
	"bytes"
	"fmt"
	"math/big"
	"reflect"
	"unsafe"
)

// deepDiff compares two values structurally, including unexported state; numbers and group elements are compared by
// value (their in-memory representation is not canonical).  It returns the path of the first difference or "".
func deepDiff(a, b reflect.Value, path string, depth int) string {
	if depth > 40 {
		return ""
	}
	if !a.IsValid() || !b.IsValid() {
		if a.IsValid() != b.IsValid() {
			return path + " (one side invalid)"
		}
		return ""
	}
	if a.Type() != b.Type() {
		return fmt.Sprintf("%s (types %s vs %s)", path, a.Type(), b.Type())
	}
	ts := a.Type().String()
	switch ts {
	case "sync.Mutex", "sync.RWMutex", "*hash.Hash", "hash.Hash", "*pool.Pool":
		return ""
	}
	if sem, ok := semantic(a); ok {
		semb, _ := semantic(b)
		if !bytes.Equal(sem, semb) {
			return path + " (value differs)"
		}
		return ""
	}
	switch a.Kind() {
	case reflect.Ptr, reflect.Interface:
		if a.IsNil() || b.IsNil() {
			if a.IsNil() != b.IsNil() {
				return path + " (nil vs non-nil)"
			}
			return ""
		}
		return deepDiff(a.Elem(), b.Elem(), path, depth+1)
	case reflect.Struct:
		for i := 0; i < a.NumField(); i++ {
			fa, fb := access(a.Field(i)), access(b.Field(i))
			if d := deepDiff(fa, fb, path+"."+a.Type().Field(i).Name, depth+1); d != "" {
				return d
			}
		}
		return ""
	case reflect.Slice, reflect.Array:
		if a.Kind() == reflect.Slice && a.Len() != b.Len() {
			return fmt.Sprintf("%s (length %d vs %d)", path, a.Len(), b.Len())
		}
		for i := 0; i < a.Len(); i++ {
			if d := deepDiff(a.Index(i), b.Index(i), fmt.Sprintf("%s[%d]", path, i), depth+1); d != "" {
				return d
			}
		}
		return ""
	case reflect.Map:
		if a.Len() != b.Len() {
			return fmt.Sprintf("%s (map size %d vs %d)", path, a.Len(), b.Len())
		}
		for _, k := range a.MapKeys() {
			vb := b.MapIndex(k)
			if !vb.IsValid() {
				return fmt.Sprintf("%s[%v] (missing)", path, k)
			}
			if d := deepDiff(a.MapIndex(k), vb, fmt.Sprintf("%s[%v]", path, k), depth+1); d != "" {
				return d
			}
		}
		return ""
	case reflect.Func, reflect.Chan, reflect.UnsafePointer:
		return ""
	case reflect.Bool:
		if a.Bool() != b.Bool() {
			return path
		}
	case reflect.Int, reflect.Int8, reflect.Int16, reflect.Int32, reflect.Int64:
		if a.Int() != b.Int() {
			return path
		}
	case reflect.Uint, reflect.Uint8, reflect.Uint16, reflect.Uint32, reflect.Uint64, reflect.Uintptr:
		if a.Uint() != b.Uint() {
			return path
		}
	case reflect.String:
		if a.String() != b.String() {
			return path
		}
	}
	return ""
}

// access makes an unexported field readable.
func access(f reflect.Value) reflect.Value {
	if f.CanInterface() {
		return f
	}
	if f.CanAddr() {
		return reflect.NewAt(f.Type(), unsafe.Pointer(f.UnsafeAddr())).Elem()
	}
	// copy the parent is not possible here; fall back to a fresh addressable copy of the field via unsafe read of kind
	c := reflect.New(f.Type()).Elem()
	defer func() { recover() }()
	c.Set(f)
	return c
}

type bigger interface{ Big() *big.Int }

// semantic returns a canonical byte form for number / group-element / key types.
func semantic(v reflect.Value) ([]byte, bool) {
	ts := v.Type().String()
	switch ts {
	case "*saferith.Nat", "*saferith.Int", "*saferith.Modulus", "*big.Int":
		if v.IsNil() {
			return []byte("nil"), true
		}
		if !v.CanInterface() {
			v = access(v)
		}
		switch x := v.Interface().(type) {
		case bigger:
			return []byte(x.Big().String()), true
		case *big.Int:
			return []byte(x.String()), true
		}
	case "*arith.Modulus", "*paillier.PublicKey", "*pedersen.Parameters", "*paillier.SecretKey", "*curve.Secp256k1Point", "*curve.Secp256k1Scalar", "*paillier.Ciphertext":
		if v.IsNil() {
			return []byte("nil"), true
		}
		if !v.CanInterface() {
			v = access(v)
		}
		switch x := v.Interface().(type) {
		case interface{ N() interface{ Big() *big.Int } }:
			_ = x
		}
		return semanticIface(v.Interface())
	case "saferith.Nat", "saferith.Int", "saferith.Modulus", "arith.Modulus", "paillier.PublicKey", "pedersen.Parameters", "curve.Secp256k1Point", "curve.Secp256k1Scalar":
		if v.CanAddr() {
			return semantic(access(v).Addr())
		}
		c := reflect.New(v.Type())
		func() { defer func() { recover() }(); c.Elem().Set(v) }()
		return semantic(c)
	}
	return nil, false
}

func semanticIface(x interface{}) ([]byte, bool) {
	type binm interface{ MarshalBinary() ([]byte, error) }
	switch t := x.(type) {
	case interface{ Nat() interface{ Big() *big.Int } }:
		_ = t
	}
	v := reflect.ValueOf(x)
	ts := v.Type().String()
	switch ts {
	case "*curve.Secp256k1Point", "*curve.Secp256k1Scalar":
		if m, ok := x.(binm); ok {
			// the identity point marshals too (as a degenerate encoding); fine for comparison
			var b []byte
			func() { defer func() { recover() }(); b, _ = m.MarshalBinary() }()
			return b, true
		}
	case "*paillier.Ciphertext":
		r := v.MethodByName("Nat").Call(nil)[0].Interface().(bigger)
		return []byte(r.Big().String()), true
	case "*arith.Modulus":
		r := v.MethodByName("Big").Call(nil)[0].Interface().(*big.Int)
		return []byte(r.String()), true
	case "*paillier.PublicKey":
		r := v.MethodByName("N").Call(nil)[0].Interface().(bigger)
		return []byte(r.Big().String()), true
	case "*paillier.SecretKey":
		p := v.MethodByName("P").Call(nil)[0].Interface().(bigger)
		q := v.MethodByName("Q").Call(nil)[0].Interface().(bigger)
		return []byte(p.Big().String() + "," + q.Big().String()), true
	case "*pedersen.Parameters":
		n := v.MethodByName("N").Call(nil)[0].Interface().(bigger)
		s := v.MethodByName("S").Call(nil)[0].Interface().(bigger)
		t := v.MethodByName("T").Call(nil)[0].Interface().(bigger)
		return []byte(n.Big().String() + "," + s.Big().String() + "," + t.Big().String()), true
	}
	return nil, false
}
