package checks

import (
	"fmt"
	"math/big"

	"github.com/cronokirby/saferith"
	"github.com/taurusgroup/multi-party-sig/internal/mta"
	"github.com/taurusgroup/multi-party-sig/pkg/hash"
	"github.com/taurusgroup/multi-party-sig/pkg/math/arith"
	"github.com/taurusgroup/multi-party-sig/pkg/math/curve"
	"github.com/taurusgroup/multi-party-sig/pkg/paillier"
	zkaffg "github.com/taurusgroup/multi-party-sig/pkg/zk/affg"
	zkaffp "github.com/taurusgroup/multi-party-sig/pkg/zk/affp"
	"github.com/taurusgroup/multi-party-sig/verif/fx"
	"github.com/taurusgroup/multi-party-sig/verif/ref"
	"github.com/taurusgroup/multi-party-sig/verif/vk"
)

func init() {
	vk.Register(&vk.Check{
		ID:    "C12",
		Level: "exploration",
		Rule: "differential runs of Paillier (EncWithNonce, Dec, Add, Mul, DecWithRandomness, ValidateCiphertexts), arith.Modulus Exp/ExpI and MtA (ProveAffG/ProveAffP + receiver decryption) against a big-integer reference over boundary lattices and seeded random operands for several 2048-bit keys; " +
			"distinct non-trivial = distinct (operation, operand class) pairs on which the library and the reference were both evaluated",
		MinDistinct: 40,
		Assumptions: []string{"reference Paillier in verif/ref (math/big)", "keys built from the pre-generated safe-prime pool"},
		Cases:       c12Cases,
	})
}

func natOf(x *big.Int) *saferith.Nat { return new(saferith.Nat).SetBig(x, x.BitLen()+1) }
func intOf(x *big.Int) *saferith.Int { return new(saferith.Int).SetBig(x, x.BitLen()+1) }
func ctOf(x *big.Int) *paillier.Ciphertext {
	ct := &paillier.Ciphertext{}
	b, _ := natOf(x).MarshalBinary()
	_ = ct.UnmarshalBinary(b)
	return ct
}
func bigCt(c *paillier.Ciphertext) *big.Int { return c.Nat().Big() }

type c12Key struct {
	sk  *paillier.SecretKey
	ref *ref.Paillier
}

func c12KeyAt(i int) c12Key {
	pool := fx.LoadPrimes()
	n := len(pool) / 2
	p, q := pool[2*(i%n)], pool[2*(i%n)+1]
	return c12Key{sk: paillier.NewSecretKeyFromPrimes(natOf(p), natOf(q)), ref: ref.NewPaillier(p, q)}
}

func c12Cases(env vk.Env) []vk.Case {
	var cs []vk.Case
	nk := env.Pick(3, 12)
	for k := 0; k < nk; k++ {
		for part := 0; part < env.Pick(4, 24); part++ {
			k, part := k, part
			cs = append(cs, vk.Case{ID: fmt.Sprintf("enc/k%d/%d", k, part), Run: func(t *vk.T) { c12Enc(t, k, part) }})
			cs = append(cs, vk.Case{ID: fmt.Sprintf("homo/k%d/%d", k, part), Run: func(t *vk.T) { c12Homo(t, k, part) }})
		}
		k := k
		cs = append(cs, vk.Case{ID: fmt.Sprintf("validate/k%d", k), Run: func(t *vk.T) { c12Validate(t, k) }})
		cs = append(cs, vk.Case{ID: fmt.Sprintf("exp/k%d", k), Run: func(t *vk.T) { c12Exp(t, k) }})
		for part := 0; part < env.Pick(3, 20); part++ {
			part := part
			cs = append(cs, vk.Case{ID: fmt.Sprintf("mta/k%d/%d", k, part), Run: func(t *vk.T) { c12MtA(t, k, part) }})
		}
	}
	return cs
}

type pcase struct {
	class string
	m     *big.Int
}

func c12Plain(r *vk.Rand, K *ref.Paillier, part int) []pcase {
	h := K.Half()
	one := big.NewInt(1)
	neg := func(x *big.Int) *big.Int { return new(big.Int).Neg(x) }
	ps := []pcase{
		{"0", big.NewInt(0)}, {"+1", big.NewInt(1)}, {"-1", big.NewInt(-1)},
		{"+half", h}, {"-half", neg(h)}, {"+half-1", new(big.Int).Sub(h, one)}, {"-(half-1)", neg(new(big.Int).Sub(h, one))},
	}
	for j := 0; j < 6; j++ {
		k := uint(1 + (part*6+j)*37%2046)
		p2 := new(big.Int).Lsh(one, k)
		ps = append(ps, pcase{"+2^k", p2}, pcase{"-2^k", neg(p2)})
	}
	for j := 0; j < 4; j++ {
		x := new(big.Int).SetBytes(r.Bytes(1 + r.Intn(255)))
		x.Mod(x, h)
		if r.Bool() {
			x.Neg(x)
		}
		ps = append(ps, pcase{"random", x})
	}
	return ps
}

func c12Enc(t *vk.T, k, part int) {
	K := c12KeyAt(k)
	r := t.Rng
	pk := K.sk.PublicKey
	for _, pc := range c12Plain(r, K.ref, part) {
		nonce := new(big.Int).SetBytes(r.Bytes(255))
		nonce.Mod(nonce, K.ref.N)
		if nonce.Sign() == 0 {
			nonce.SetInt64(2)
		}
		want, err := K.ref.Enc(pc.m, nonce)
		if err != nil {
			continue
		}
		var ct *paillier.Ciphertext
		if p, fr, txt := vk.Guard(func() { ct = pk.EncWithNonce(intOf(pc.m), natOf(nonce)) }); p {
			t.Violation("EncWithNonce|refused-in-range|"+pc.class, "panic in %s for in-range plaintext class %s: %s", fr, pc.class, txt)
			continue
		}
		t.Obs("evaluations", 1)
		t.Distinct("enc|%s", pc.class)
		if bigCt(ct).Cmp(want) != 0 {
			t.Violation("EncWithNonce|differs|"+pc.class, "ciphertext differs from the reference for m=%s", pc.m.String())
			continue
		}
		got, derr := K.sk.Dec(ct)
		if derr != nil || got.Big().Cmp(pc.m) != 0 {
			t.Violation("Dec|not-inverse|"+pc.class, "Dec(Enc(m)) = %v (%v) for m=%s", got, derr, pc.m.String())
		}
		// recovered randomness re-encrypts to the same ciphertext
		m2, rho, err2 := K.sk.DecWithRandomness(ct)
		if err2 != nil || m2.Big().Cmp(pc.m) != 0 {
			t.Violation("DecWithRandomness|plaintext|"+pc.class, "got %v err %v", m2, err2)
		} else {
			re := pk.EncWithNonce(m2, rho)
			t.Distinct("decrand|%s", pc.class)
			if bigCt(re).Cmp(want) != 0 {
				t.Violation("DecWithRandomness|reencryption-differs|"+pc.class, "re-encryption with the recovered randomness differs for m=%s", pc.m.String())
			}
		}
		// decryption is a read-only operation on its argument: the ciphertext object is still Enc(m; nonce) afterwards
		if bigCt(ct).Cmp(want) != 0 {
			t.Violation("Dec|argument-modified|"+pc.class, "after Dec / DecWithRandomness the caller's ciphertext object no longer holds the ciphertext (m=%s)", pc.m.String())
		} else if again, e := K.sk.Dec(ct); e != nil || again.Big().Cmp(pc.m) != 0 {
			t.Violation("Dec|not-repeatable|"+pc.class, "a second Dec of the same ciphertext object gives %v (%v) for m=%s", again, e, pc.m.String())
		}
		// random-nonce Enc decrypts too
		c2, _ := pk.Enc(intOf(pc.m))
		if g2, e := K.ref.Dec(bigCt(c2)); e != nil || g2.Cmp(pc.m) != 0 {
			t.Violation("Enc|reference-decrypts-differently|"+pc.class, "reference decrypts Enc(m) to %v (%v), m=%s", g2, e, pc.m.String())
		}
	}
	// out of range must be refused
	h := K.ref.Half()
	outs := []pcase{
		{"half+1", new(big.Int).Add(h, big.NewInt(1))}, {"-(half+1)", new(big.Int).Neg(new(big.Int).Add(h, big.NewInt(1)))},
		{"+N", K.ref.N}, {"-N", new(big.Int).Neg(K.ref.N)}, {"N-1", new(big.Int).Sub(K.ref.N, big.NewInt(1))},
		{"+2^2048", new(big.Int).Lsh(big.NewInt(1), 2048)}, {"-2^2048", new(big.Int).Neg(new(big.Int).Lsh(big.NewInt(1), 2048))},
		{"+2^4096", new(big.Int).Lsh(big.NewInt(1), 4096)},
	}
	for _, pc := range outs {
		var ct *paillier.Ciphertext
		p, _, _ := vk.Guard(func() { ct = pk.EncWithNonce(intOf(pc.m), natOf(big.NewInt(3))) })
		t.Obs("evaluations", 1)
		t.Distinct("enc-out-of-range|%s", pc.class)
		if !p && ct != nil {
			t.Violation("EncWithNonce|out-of-range-accepted|"+pc.class, "a ciphertext was returned for out-of-range plaintext class %s", pc.class)
		}
	}
	if part == 0 {
		t.Sample(map[string]any{"op": "EncWithNonce/Dec/DecWithRandomness", "key_index": k, "N_bits": K.ref.N.BitLen(), "plaintext_classes": len(c12Plain(r, K.ref, part))})
	}
}

func c12Homo(t *vk.T, k, part int) {
	K := c12KeyAt(k)
	r := t.Rng
	pk := K.sk.PublicKey
	ps := c12Plain(r, K.ref, part)
	enc := func(m *big.Int) (*paillier.Ciphertext, *big.Int) {
		nonce := new(big.Int).SetBytes(r.Bytes(64))
		nonce.Add(nonce, big.NewInt(2))
		c, _ := K.ref.Enc(m, nonce)
		return ctOf(c), c
	}
	for i := 0; i < len(ps); i++ {
		a := ps[i]
		b := ps[(i*7+part+3)%len(ps)]
		ca, ra := enc(a.m)
		cb, rb := enc(b.m)
		// Add
		sum := new(big.Int).Add(a.m, b.m)
		got := ca.Clone().Add(pk, cb)
		wantCt := K.ref.Add(ra, rb)
		t.Obs("evaluations", 1)
		cls := "in"
		if !K.ref.InRange(sum) {
			cls = "out"
		}
		t.Distinct("add|%s+%s|%s", a.class, b.class, cls)
		if bigCt(got).Cmp(wantCt) != 0 {
			t.Violation("Add|ciphertext-differs", "Add differs from the reference for %s + %s", a.class, b.class)
		}
		if bigCt(cb).Cmp(rb) != 0 || bigCt(ca).Cmp(ra) != 0 {
			t.Violation("Add|argument-modified", "Add on a clone changed its second operand or the original of the clone (%s + %s)", a.class, b.class)
		}
		if K.ref.InRange(sum) {
			d, err := K.sk.Dec(got)
			if err != nil || d.Big().Cmp(sum) != 0 {
				t.Violation("Add|wrong-sum|"+a.class+"+"+b.class, "Dec(Add) = %v (%v), want %s", d, err, sum.String())
			}
		}
		// Mul by constant (small constants keep the product in range, large ones leave it)
		for _, kc := range []*big.Int{big.NewInt(0), big.NewInt(1), big.NewInt(-1), big.NewInt(2), big.NewInt(-3), new(big.Int).Neg(randScalarBig(r)), randScalarBig(r)} {
			prod := new(big.Int).Mul(a.m, kc)
			gm := ca.Clone().Mul(pk, intOf(kc))
			wm := K.ref.MulConst(ra, kc)
			t.Obs("evaluations", 1)
			kcl := "small"
			if kc.BitLen() > 8 {
				kcl = "scalar"
			}
			if kc.Sign() < 0 {
				kcl = "neg-" + kcl
			}
			t.Distinct("mul|%s*%s|inrange=%v", a.class, kcl, K.ref.InRange(prod))
			if bigCt(gm).Cmp(wm) != 0 {
				t.Violation("Mul|ciphertext-differs|"+kcl, "Mul differs from the reference for %s * %s", a.class, kc.String())
			}
			if K.ref.InRange(prod) {
				d, err := K.sk.Dec(gm)
				if err != nil || d.Big().Cmp(prod) != 0 {
					t.Violation("Mul|wrong-product|"+a.class+"*"+kcl, "Dec(Mul) = %v (%v), want %s", d, err, prod.String())
				}
			}
		}
	}
	if part == 0 {
		t.Sample(map[string]any{"op": "Add/Mul", "key_index": k, "pairs": len(ps)})
	}
}

func c12Validate(t *vk.T, k int) {
	K := c12KeyAt(k)
	r := t.Rng
	N, N2 := K.ref.N, K.ref.N2
	one := big.NewInt(1)
	add := func(a *big.Int, d int64) *big.Int { return new(big.Int).Add(a, big.NewInt(d)) }
	mul := func(a, b *big.Int) *big.Int { return new(big.Int).Mul(a, b) }
	type cand struct {
		class string
		c     *big.Int
	}
	cands := []cand{{"0", big.NewInt(0)}, {"1", one}, {"N-1", add(N, -1)}, {"N", N}, {"N+1", add(N, 1)}, {"2N", mul(N, big.NewInt(2))}, {"kN", mul(N, new(big.Int).SetBytes(r.Bytes(100)))},
		{"p", K.ref.P}, {"q", K.ref.Qp}, {"p^2", mul(K.ref.P, K.ref.P)}, {"p*r", mul(K.ref.P, new(big.Int).SetBytes(r.Bytes(64)))}, {"q*r", mul(K.ref.Qp, new(big.Int).SetBytes(r.Bytes(64)))},
		{"N^2-1", add(N2, -1)}, {"N^2", N2}, {"N^2+1", add(N2, 1)}, {"N^2+N", new(big.Int).Add(N2, N)}, {"2^4096", new(big.Int).Lsh(one, 4096)}}
	for i := 0; i < 20; i++ {
		x := new(big.Int).SetBytes(r.Bytes(512))
		x.Mod(x, N2)
		cands = append(cands, cand{"random", x})
	}
	for _, c := range cands {
		want := K.ref.ValidCiphertext(c.c)
		var got bool
		if p, fr, txt := vk.Guard(func() { got = K.sk.PublicKey.ValidateCiphertexts(ctOf(c.c)) }); p {
			t.Violation("ValidateCiphertexts|panic|"+c.class+"|"+fr, "%s", txt)
			continue
		}
		t.Obs("evaluations", 1)
		t.Distinct("validate|%s|ref=%v", c.class, want)
		if got != want {
			t.Violation(fmt.Sprintf("ValidateCiphertexts|%s|lib=%v|ref=%v", c.class, got, want), "candidate class %s: library %v, reference (0<c<N^2 and gcd(c,N)=1) %v", c.class, got, want)
		}
		// Dec must refuse exactly the invalid ones
		_, err := K.sk.Dec(ctOf(c.c))
		if (err == nil) != want {
			t.Violation(fmt.Sprintf("Dec|validity|%s|accepted=%v", c.class, err == nil), "Dec accepted=%v, valid=%v", err == nil, want)
		}
	}
	if !K.sk.PublicKey.ValidateCiphertexts(ctOf(big.NewInt(5)), ctOf(big.NewInt(7))) || K.sk.PublicKey.ValidateCiphertexts(ctOf(big.NewInt(5)), ctOf(N)) || K.sk.PublicKey.ValidateCiphertexts(ctOf(N), ctOf(big.NewInt(5))) || K.sk.PublicKey.ValidateCiphertexts(nil) {
		t.Violation("ValidateCiphertexts|variadic", "validation of several ciphertexts is not the conjunction")
	}
	t.Sample(map[string]any{"op": "ValidateCiphertexts", "key_index": k, "candidates": len(cands)})
}

func c12Exp(t *vk.T, k int) {
	K := c12KeyAt(k)
	r := t.Rng
	p, q := K.ref.P, K.ref.Qp
	fast := arith.ModulusFromFactors(natOf(p), natOf(q))
	slow := arith.ModulusFromN(saferith.ModulusFromNat(natOf(K.ref.N)))
	p2, q2 := new(big.Int).Mul(p, p), new(big.Int).Mul(q, q)
	fast2 := arith.ModulusFromFactors(natOf(p2), natOf(q2))
	type mm struct {
		name string
		m    *arith.Modulus
		n    *big.Int
	}
	mods := []mm{{"N-crt", fast, K.ref.N}, {"N-plain", slow, K.ref.N}, {"N2-crt", fast2, K.ref.N2}}
	one := big.NewInt(1)
	for _, M := range mods {
		bases := map[string]*big.Int{"0": big.NewInt(0), "1": one, "n-1": new(big.Int).Sub(M.n, one), "p": p, "q": q, "2": big.NewInt(2), "random": new(big.Int).Mod(new(big.Int).SetBytes(r.Bytes(300)), M.n), "p*r": new(big.Int).Mod(new(big.Int).Mul(p, new(big.Int).SetBytes(r.Bytes(50))), M.n)}
		exps := map[string]*big.Int{"0": big.NewInt(0), "1": one, "2": big.NewInt(2), "n": M.n, "phi": K.ref.Phi, "random": new(big.Int).SetBytes(r.Bytes(200)), "2^2048": new(big.Int).Lsh(one, 2048)}
		for bn, b := range bases {
			for en, e := range exps {
				want := new(big.Int).Exp(b, e, M.n)
				got := M.m.Exp(natOf(b), natOf(e))
				t.Obs("evaluations", 1)
				t.Distinct("exp|%s|base=%s|exp=%s", M.name, bn, en)
				if got.Big().Cmp(want) != 0 {
					t.Violation("Modulus.Exp|"+M.name+"|base="+bn+"|exp="+en, "Exp differs from big.Int.Exp")
				}
				// ExpI with negative exponent, only for units
				if new(big.Int).GCD(nil, nil, b, M.n).Cmp(one) == 0 {
					inv := new(big.Int).ModInverse(want, M.n)
					gi := M.m.ExpI(natOf(b), intOf(new(big.Int).Neg(e)))
					t.Obs("evaluations", 1)
					if gi.Big().Cmp(inv) != 0 {
						t.Violation("Modulus.ExpI|"+M.name+"|base="+bn+"|exp=-"+en, "ExpI with a negative exponent differs from the modular inverse of the power")
					}
					gp := M.m.ExpI(natOf(b), intOf(e))
					if gp.Big().Cmp(want) != 0 {
						t.Violation("Modulus.ExpI|"+M.name+"|base="+bn+"|exp=+"+en, "ExpI with a positive exponent differs")
					}
				}
			}
		}
	}
	t.Sample(map[string]any{"op": "arith.Modulus.Exp/ExpI", "key_index": k, "moduli": []string{"N (CRT)", "N (plain)", "N^2 (CRT)"}})
}

func c12MtA(t *vk.T, k, part int) {
	r := t.Rng
	sender := c12KeyAt(k)
	receiver := c12KeyAt(k + 1)
	aux, _ := receiver.sk.GeneratePedersen()
	one := big.NewInt(1)
	qm1 := new(big.Int).Sub(ref.Q, one)
	lat := map[string]*big.Int{"0": big.NewInt(0), "1": one, "2": big.NewInt(2), "q-1": qm1, "q-2": new(big.Int).Sub(ref.Q, big.NewInt(2)), "2^255": new(big.Int).Lsh(one, 255), "random": randScalarBig(r)}
	names := []string{"0", "1", "2", "q-1", "q-2", "2^255", "random"}
	for j := 0; j < 4; j++ {
		an := names[(part*4+j)%len(names)]
		bn := names[(part*4+j*3+part/2)%len(names)]
		a, b := lat[an], lat[bn]
		// receiver encrypts b under its own key
		Kb, _ := receiver.sk.PublicKey.Enc(intOf(b))
		h := hash.New(hash.BytesWithDomain{TheDomain: "mta", Bytes: r.Bytes(8)})
		for _, variant := range []string{"affg", "affp"} {
			var beta *saferith.Int
			var D, F *paillier.Ciphertext
			var verified bool
			pnk, fr, txt := vk.Guard(func() {
				if variant == "affg" {
					var proof *zkaffg.Proof
					A := LibScalar(a).ActOnBase()
					beta, D, F, proof = mta.ProveAffG(curve.Secp256k1{}, h.Clone(), intOf(a), A, Kb, sender.sk, receiver.sk.PublicKey, aux)
					verified = proof.Verify(h.Clone(), zkaffg.Public{Kv: Kb, Dv: D, Fp: F, Xp: A, Prover: sender.sk.PublicKey, Verifier: receiver.sk.PublicKey, Aux: aux})
				} else {
					var proof *zkaffp.Proof
					Xa, nonce := sender.sk.PublicKey.Enc(intOf(a))
					beta, D, F, proof = mta.ProveAffP(curve.Secp256k1{}, h.Clone(), intOf(a), Xa, nonce, Kb, sender.sk, receiver.sk.PublicKey, aux)
					verified = proof.Verify(curve.Secp256k1{}, h.Clone(), zkaffp.Public{Kv: Kb, Dv: D, Fp: F, Xp: Xa, Prover: sender.sk.PublicKey, Verifier: receiver.sk.PublicKey, Aux: aux})
				}
			})
			if pnk {
				t.Violation("mta|panic|"+variant+"|"+fr, "a=%s b=%s: %s", an, bn, txt)
				continue
			}
			t.Obs("evaluations", 1)
			t.Distinct("mta|%s|a=%s|b=%s", variant, an, bn)
			alpha, err := receiver.ref.Dec(bigCt(D))
			if err != nil {
				t.Violation("mta|D-invalid|"+variant, "receiver cannot decrypt D: %v", err)
				continue
			}
			la, lerr := receiver.sk.Dec(D)
			if lerr != nil || la.Big().Cmp(alpha) != 0 {
				t.Violation("mta|library-decrypts-differently|"+variant, "library %v (%v), reference %s", la, lerr, alpha.String())
			}
			sum := new(big.Int).Add(alpha, beta.Big())
			prod := new(big.Int).Mul(a, b)
			if sum.Cmp(prod) != 0 {
				t.Violation("mta|alpha+beta!=a*b|"+variant+"|a="+an+"|b="+bn, "alpha+beta = %s, a*b = %s", sum.String(), prod.String())
			}
			// F encrypts -beta under the sender key
			fb, ferr := sender.ref.Dec(bigCt(F))
			if ferr != nil || fb.Cmp(new(big.Int).Neg(beta.Big())) != 0 {
				t.Violation("mta|F-not-enc-of-minus-beta|"+variant, "F decrypts to %v (%v)", fb, ferr)
			}
			if !verified {
				t.Violation("mta|honest-proof-rejected|"+variant+"|a="+an+"|b="+bn, "the proof accompanying an honest MtA does not verify")
			}
		}
	}
	if part == 0 {
		t.Sample(map[string]any{"op": "MtA affg/affp", "sender_key": k, "receiver_key": k + 1})
	}
}
