package checks

import (
	"fmt"
	"math/big"

	"github.com/taurusgroup/multi-party-sig/pkg/party"
	"github.com/taurusgroup/multi-party-sig/pkg/protocol"
	"github.com/taurusgroup/multi-party-sig/protocols/doerner"
	"github.com/taurusgroup/multi-party-sig/protocols/frost"
	"github.com/taurusgroup/multi-party-sig/verif/adv"
	"github.com/taurusgroup/multi-party-sig/verif/fx"
	"github.com/taurusgroup/multi-party-sig/verif/ref"
	"github.com/taurusgroup/multi-party-sig/verif/sim"
	"github.com/taurusgroup/multi-party-sig/verif/vk"
)

func init() {
	vk.Register(&vk.Check{
		ID:    "C08",
		Level: "exploration",
		Rule: "seeded histories over {refresh, serialise+restore, derive-child, sign} after a real key generation for FROST, FROST-Taproot, Doerner and CMP on (n,t) lattices; after every refresh: key unchanged, consistent-key-material oracle, every secret share changed, every enumerated mixed-epoch reconstruction set fails, signing with refreshed material succeeds, a session with 1..|S|-1 stale signers yields no signature at any party; refreshes that are cut short (share must stay), answered by a peer echoing the refresh contribution, or run against a peer using a share of its own choosing (an honest finisher must still report the old group key); " +
			"distinct non-trivial = distinct (protocol, n, t, history prefix) whose refresh oracle ran, plus distinct (protocol, n, t, #stale) stale-signer sessions judged",
		MinDistinct:  30,
		Assumptions:  []string{"epoch snapshots are taken through the documented encoders before the next refresh (FROST refresh updates the caller's share object in place)", "CMP material from pool primes (hook H1)"},
		Cases:        c08Cases,
		CaseTimeoutS: 2400,
	})
}

func c08Cases(env vk.Env) []vk.Case {
	var cs []vk.Case
	type nt struct{ n, t int }
	small := []nt{{2, 1}, {3, 1}, {3, 2}, {4, 1}, {4, 2}, {5, 2}, {5, 4}, {6, 1}, {2, 0}, {3, 0}, {1, 0}, {7, 3}}
	reps := env.Pick(3, 60)
	for _, x := range small {
		for rep := 0; rep < reps; rep++ {
			x, rep := x, rep
			cs = append(cs, vk.Case{ID: fmt.Sprintf("frost/n%d/t%d/%d", x.n, x.t, rep), Run: func(t *vk.T) { c08History(t, "frost", x.n, x.t, rep, env) }})
			cs = append(cs, vk.Case{ID: fmt.Sprintf("taproot/n%d/t%d/%d", x.n, x.t, rep), Run: func(t *vk.T) { c08History(t, "frost-taproot", x.n, x.t, rep, env) }})
		}
	}
	for i := 0; i < env.Pick(10, 150); i++ {
		i := i
		cs = append(cs, vk.Case{ID: fmt.Sprintf("doerner/%d", i), Run: func(t *vk.T) { c08History(t, "doerner", 2, 1, i, env) }})
	}
	for i := 0; i < env.Pick(6, 60); i++ {
		i := i
		cs = append(cs, vk.Case{ID: fmt.Sprintf("doerner-cancel/%d", i), Run: func(t *vk.T) { c08DoernerCancel(t, i) }})
	}
	for i := 0; i < env.Pick(8, 80); i++ {
		i := i
		cs = append(cs, vk.Case{ID: fmt.Sprintf("doerner-foreign-share-peer/%d", i), Run: func(t *vk.T) { c08ForeignPeer(t, "doerner", i) }})
		cs = append(cs, vk.Case{ID: fmt.Sprintf("frost-foreign-share-peer/%d", i), Run: func(t *vk.T) { c08ForeignPeer(t, "frost", i) }})
	}
	cmps := []nt{{3, 1}, {2, 1}, {3, 2}}
	if env.Thorough() {
		cmps = []nt{{2, 1}, {3, 1}, {3, 2}, {4, 1}, {4, 2}, {4, 3}, {3, 0}, {5, 2}, {2, 1}, {3, 1}, {3, 2}, {4, 2}}
	}
	for i, x := range cmps {
		i, x := i, x
		cs = append(cs, vk.Case{ID: fmt.Sprintf("cmp/n%d/t%d/%d", x.n, x.t, i), Run: func(t *vk.T) { c08History(t, "cmp", x.n, x.t, i, env) }})
	}
	return cs
}

func secretsOf(m fx.Mat) map[string]*big.Int {
	out := map[string]*big.Int{}
	for _, s := range m.Shares() {
		out[s.ID] = s.Secret
	}
	return out
}

func c08History(t *vk.T, proto string, n, th, rep int, env vk.Env) {
	r := t.Rng
	var cur fx.Mat
	var err error
	ids := fx.IDs(r, rep%4, n)
	opt := func() fx.Opt { _, s := pickSched(r, ids); return fx.Opt{Sched: s, SessionID: r.Bytes(4)} }
	switch proto {
	case "frost":
		cur, err = fx.NewFrostMat(r, ids, th, opt())
	case "frost-taproot":
		cur, err = fx.NewTaprootMat(r, ids, th, opt())
	case "doerner":
		if rep%2 == 1 {
			ids[0], ids[1] = ids[1], ids[0]
		}
		cur, err = fx.NewDoernerMat(r, ids[0], ids[1], opt())
	case "cmp":
		fx.InstallPrimeHook()
		fx.SetPrimeOffset(uint64(r.Intn(1000)))
		if rep%2 == 0 {
			cur, err = fx.NewCMPMat(r, ids, th, opt())
		} else {
			cur = fx.NewCMPMatDealt(ids, th)
		}
	}
	if err != nil {
		t.Violation(proto+"|keygen-failed", "n=%d t=%d: %v", n, th, err)
		return
	}
	fails, _ := fx.CheckMaterial(r, cur.Shares(), nil, 30)
	if len(fails) > 0 {
		t.Violation(proto+"|keygen|"+fails[0][0], "%s", fails[0][1])
		return
	}
	if cmm, ok := cur.(*fx.CMPMat); ok && rep%2 == 1 {
		cmm.Path = "presign+online" // every second CMP history signs through presignatures
	}
	key := cur.Shares()[0].GroupKey
	maxLen := env.Pick(3, 6)
	if proto == "cmp" {
		maxLen = env.Pick(2, 4)
	}
	hist := ""
	refreshes := 0
	for step := 0; step < maxLen; step++ {
		ops := []string{"refresh", "refresh", "restore", "derive", "sign", "aborted-refresh"}
		op := ops[r.Intn(len(ops))]
		if step == 0 || (step == maxLen-1 && refreshes == 0) {
			op = "refresh"
		} else if step == 1 && (rep%2 == 0 && proto != "cmp" || proto == "cmp" && rep%3 == 0) {
			op = "aborted-refresh" // every second history (every third for CMP) loses a refresh right after its first one
		}
		hist += op[:3] + ">"
		tag := fmt.Sprintf("%s n=%d t=%d ids=%q history=%s", proto, n, th, ids, hist)
		switch op {
		case "restore":
			if proto == "doerner" {
				continue // no deep-copying encoder for Doerner material; decided under C15
			}
			m, err := cur.Snapshot()
			if err != nil {
				t.Violation(proto+"|restore-failed", "%s: %v", tag, err)
				return
			}
			cur = m
			if f, _ := fx.CheckMaterial(r, cur.Shares(), &key, 20); len(f) > 0 {
				t.Violation(proto+"|after-restore|"+f[0][0], "%s: %s", tag, f[0][1])
				return
			}
		case "derive":
			idx := uint32(r.Intn(1 << 31))
			m, err := cur.Derive(idx)
			if err != nil {
				t.Violation(proto+"|derive-failed", "%s: DeriveChild(%d): %v", tag, idx, err)
				return
			}
			cur = m
			f, _ := fx.CheckMaterial(r, cur.Shares(), nil, 20)
			if len(f) > 0 {
				t.Violation(proto+"|after-derive|"+f[0][0], "%s: %s", tag, f[0][1])
				return
			}
			key = cur.Shares()[0].GroupKey
		case "sign":
			c08Sign(t, r, cur, nil, 0, key, tag, proto, n, th)
		case "aborted-refresh":
			if proto == "cmp" && !env.Thorough() && refreshes > 0 {
				continue
			}
			// a refresh in which the messages of round k and later are lost: nobody completes, and the material the
			// parties hold (the very same objects) must be exactly as usable as before
			final := map[string]int{"frost": 3, "frost-taproot": 3, "doerner": 3, "cmp": 5}[proto]
			from := 2 + (rep/2+step+r.Intn(2)*(final-1))%(final-1)
			if proto == "cmp" && r.Intn(2) == 0 {
				from = final // the confirmation round is the one that gets lost
			}
			before := secretsOf(cur)
			o := opt()
			o.Prepare = func(nn *sim.Net) {
				nn.OnDeliver = func(_ *sim.Net, d *sim.Delivery) []*sim.Delivery {
					if d.Round >= from || d.Round == 0 {
						return nil
					}
					return []*sim.Delivery{d}
				}
			}
			var rerr error
			if p, fr, txt := vk.Guard(func() { _, rerr = cur.Refresh(r, o) }); p {
				t.Violation(proto+"|aborted-refresh-panic|"+fr, "%s: %s", tag, txt)
				return
			}
			if rerr == nil {
				if n > 1 {
					t.Inconclusive("%s: refresh completed although rounds >= %d were dropped", tag, from)
				}
				continue // a single party has no messages to lose
			}
			t.Obs("aborted_refreshes", 1)
			t.Distinct("%s|n=%d|t=%d|aborted-refresh-from-round-%d", proto, n, th, from)
			for id, sec := range secretsOf(cur) {
				if before[id].Cmp(sec) != 0 {
					t.Violation(proto+"|aborted-refresh-changed-share", "%s: the share of %q changed although the refresh (messages of round >= %d lost) never completed", tag, id, from)
				}
			}
			if f, _ := fx.CheckMaterial(r, cur.Shares(), &key, 20); len(f) > 0 {
				t.Violation(proto+"|after-aborted-refresh|"+f[0][0], "%s (rounds >= %d lost): %s", tag, from, f[0][1])
				return
			}
			c08Sign(t, r, cur, nil, 0, key, tag, proto, n, th)
		case "refresh":
			old, err := cur.Snapshot()
			if err != nil {
				t.Violation(proto+"|snapshot-failed", "%s: %v", tag, err)
				return
			}
			oldSec := secretsOf(old)
			// copies made with the library's own Clone() before the refresh must stay what they were
			var tapClones map[party.ID]*frost.TaprootConfig
			if tm, ok := cur.(*fx.TaprootMat); ok {
				tapClones = map[party.ID]*frost.TaprootConfig{}
				for id, c := range tm.Cfgs {
					tapClones[id] = c.Clone()
				}
			}
			nw, err := cur.Refresh(r, opt())
			if err != nil {
				t.Violation(proto+"|refresh-failed", "%s: %v", tag, err)
				return
			}
			refreshes++
			t.Obs("evaluations", 1)
			t.Obs("refreshes|"+proto, 1)
			// CMP and Doerner return new configurations: the ones passed in still are the pre-refresh epoch
			// (FROST documents that it updates the caller's share object; see the assumption of this check)
			if proto == "cmp" || proto == "doerner" {
				for id, sec := range secretsOf(cur) {
					if o, ok := oldSec[id]; ok && o.Cmp(sec) != 0 {
						t.Violation(proto+"|refresh-modified-the-configuration-passed-in", "%s: after a completed refresh the configuration object %q passed in no longer holds its pre-refresh share", tag, id)
						return
					}
				}
			}
			for id, c := range tapClones {
				cs := fx.ShareOfTaproot(c)
				t.Obs("clones_compared_after_refresh", 1)
				if o, ok := oldSec[string(id)]; ok && (cs.Secret == nil || o.Cmp(cs.Secret) != 0) {
					t.Violation(proto+"|clone-follows-refresh", "%s: a Clone() of %q's configuration taken before the refresh no longer holds the pre-refresh share afterwards", tag, id)
					return
				}
			}
			shares := nw.Shares()
			f, subsets := fx.CheckMaterial(r, shares, &key, 60)
			t.Obs("reconstruction_subsets_checked", int64(subsets))
			for _, x := range f {
				t.Violation(proto+"|after-refresh|"+x[0], "%s: %s", tag, x[1])
			}
			if len(f) > 0 {
				return
			}
			// every share changed
			for _, s := range shares {
				if th == 0 && !s.Additive {
					break // with t=0 every share IS the secret key (constant polynomial): no refresh can change it
				}
				if o, ok := oldSec[s.ID]; ok && o.Cmp(s.Secret) == 0 {
					t.Violation(proto+"|share-unchanged-by-refresh", "%s: the secret share of %q is the same before and after the refresh", tag, s.ID)
				}
			}
			// mixed-epoch reconstruction must fail
			c08Mixed(t, r, proto, old.Shares(), shares, key, th, tag)
			t.Distinct("%s|n=%d|t=%d|%s", proto, n, th, hist)
			cur = nw
			// signing: all refreshed must work; with stale signers nobody may return a signature
			c08Sign(t, r, cur, nil, 0, key, tag, proto, n, th)
			maxStale := th // |S| = t+1 signers, 1..t stale
			if proto == "doerner" {
				maxStale = 1
			}
			for k := 1; k <= maxStale && k <= 3; k++ {
				if proto == "cmp" && k > 1 && !env.Thorough() {
					break
				}
				c08Sign(t, r, cur, old, k, key, tag, proto, n, th)
			}
			if refreshes == 1 && rep == 0 {
				t.Sample(map[string]any{"protocol": proto, "n": n, "t": th, "ids": fx.IDStrings(ids), "history": hist})
			}
		}
	}
}

func c08Mixed(t *vk.T, r *vk.Rand, proto string, old, nw []fx.Share, key ref.Pt, th int, tag string) {
	n := len(nw)
	if old[0].Additive {
		for a := 0; a < 2; a++ {
			sum := new(big.Int).Add(old[a].Secret, nw[1-a].Secret)
			t.Obs("mixed_epoch_sets_checked", 1)
			if ref.MulG(sum).Equal(key) {
				t.Violation(proto+"|mixed-epochs-reconstruct", "%s: old share of %q plus new share of %q still give the key", tag, old[a].ID, nw[1-a].ID)
			}
		}
		return
	}
	if th < 1 {
		// t=0: every single share is the key itself, refresh cannot change it; nothing to mix
		return
	}
	oldBy := map[string]*big.Int{}
	for _, s := range old {
		oldBy[s.ID] = s.Secret
	}
	count := 0
	for _, sub := range fx.SampleSubsets(r, n, th+1, 12) {
		for mask := 1; mask < (1<<uint(len(sub)))-1 && count < 80; mask++ {
			if len(sub) > 4 && r.Intn(4) != 0 {
				continue
			}
			xs := make([]*big.Int, len(sub))
			ys := make([]*big.Int, len(sub))
			for i, j := range sub {
				xs[i] = ref.IDScalar(nw[j].ID)
				ys[i] = nw[j].Secret
				if mask&(1<<uint(i)) != 0 {
					ys[i] = oldBy[nw[j].ID]
				}
			}
			count++
			t.Obs("mixed_epoch_sets_checked", 1)
			if ref.MulG(ref.InterpolateSecret(xs, ys)).Equal(key) {
				t.Violation(proto+"|mixed-epochs-reconstruct", "%s: a reconstruction set mixing old and new shares (mask %b of %v) still yields the key", tag, mask, sub)
				return
			}
		}
	}
}

// c08Sign runs one signing session; with stale != nil, `k` of the signers use the previous epoch's material.
func c08Sign(t *vk.T, r *vk.Rand, cur, stale fx.Mat, k int, key ref.Pt, tag, proto string, n, th int) {
	ids := cur.IDs()
	size := th + 1
	if stale == nil && r.Bool() && size < n {
		size += r.Intn(n - size + 1)
	}
	if proto == "doerner" {
		size = 2
	}
	perm := r.Perm(n)[:size]
	var S []party.ID
	for _, j := range perm {
		S = append(S, ids[j])
	}
	S = party.NewIDSlice(S)
	staleIDs := map[party.ID]bool{}
	if stale != nil {
		for _, j := range r.Perm(len(S))[:k] {
			staleIDs[S[j]] = true
		}
	}
	msg := r.Bytes(32)
	_, sched := pickSched(r, S)
	var outs []fx.Outcome
	var err error
	pnk, fr, txt := vk.Guard(func() { outs, _, err = cur.Sign(r, S, msg, stale, staleIDs, fx.Opt{Sched: sched, SessionID: r.Bytes(4)}) })
	t.Obs("evaluations", 1)
	if stale == nil {
		if pnk {
			t.Violation(proto+"|sign-panic|"+fr, "%s: %s", tag, txt)
			return
		}
		if err != nil {
			t.Violation(proto+"|sign-start-failed", "%s: %v", tag, err)
			return
		}
		judge(t, proto+"|sign-after-history", outs, key, msg, tag+fmt.Sprintf(" S=%q", S), true)
		return
	}
	t.Obs("stale_signer_sessions", 1)
	if pnk {
		// a crash is not a signature; crash-safety of hostile peers is C05/C20
		t.Obs("stale_signer_session_panics", 1)
		t.Distinct("%s|stale|n=%d|t=%d|k=%d|panic", proto, n, th, k)
		return
	}
	if err != nil {
		t.Distinct("%s|stale|n=%d|t=%d|k=%d|refused-at-start", proto, n, th, k)
		return
	}
	t.Distinct("%s|stale|n=%d|t=%d|k=%d", proto, n, th, k)
	for _, o := range outs {
		if o.State == "done" {
			ok, _, _ := fx.VerifySig(o.Value, key, msg)
			t.Violation(proto+"|stale-signer-session-signed", "%s S=%q stale=%v: party %q returned a signature (valid under the group key: %v) although %d signer(s) used pre-refresh material", tag, S, staleIDs, o.ID, ok, k)
		}
	}
	_ = sim.State
}

// c08DoernerCancel: a peer that answers the other party's refresh contribution with the same value (so that the two
// cancel) must not be able to leave the honest party's share unchanged by a "successful" refresh.
func c08DoernerCancel(t *vk.T, i int) {
	r := t.Rng
	ids := fx.IDs(r, i%4, 2)
	dm, err := fx.NewDoernerMat(r, ids[0], ids[1], fx.Opt{SessionID: r.Bytes(4)})
	if err != nil {
		t.Violation("doerner|keygen-failed", "%v", err)
		return
	}
	old := secretsOf(dm)
	var senderScalar []byte
	o := fx.Opt{SessionID: r.Bytes(4)}
	o.Prepare = func(nn *sim.Net) {
		nn.OnDeliver = func(_ *sim.Net, d *sim.Delivery) []*sim.Delivery {
			m := sim.Decode(d.Bytes)
			root, err := adv.Decode(m.Data)
			if err != nil {
				return []*sim.Delivery{d}
			}
			mm, ok := root.(map[interface{}]interface{})
			if !ok {
				return []*sim.Delivery{d}
			}
			if d.From == dm.K.SID && d.Round == 2 {
				if b, ok := mm["RefreshScalar"].([]byte); ok {
					senderScalar = append([]byte{}, b...)
				}
			}
			if d.From == dm.K.RID && d.Round == 2 && senderScalar != nil {
				if _, ok := mm["RefreshScalar"]; ok {
					mm["RefreshScalar"] = senderScalar // the corrupted receiver echoes the sender's contribution
					if nb, err := adv.Encode(mm); err == nil {
						m.Data = nb
						if wb, err := m.MarshalBinary(); err == nil {
							c := *d
							c.Bytes = wb
							c.Tag = "refresh-scalar-echoed"
							t.Obs("tampered_refresh_messages", 1)
							return []*sim.Delivery{&c}
						}
					}
				}
			}
			return []*sim.Delivery{d}
		}
	}
	n, outs, err := fx.RunTwo(r, dm.K.RID, dm.K.SID, doerner.RefreshReceiver(dm.K.R, dm.K.RID, dm.K.SID, nil), doerner.RefreshSender(dm.K.S, dm.K.SID, dm.K.RID, nil), true, false, o)
	_ = n
	if err != nil {
		t.Inconclusive("refresh start: %v", err)
		return
	}
	t.Obs("evaluations", 1)
	t.Distinct("doerner|refresh-with-echoing-peer|%d", i%4)
	for _, oc := range outs {
		if oc.ID != dm.K.SID {
			continue
		}
		t.Obs("echoing_peer|honest_sender_"+oc.State, 1)
		if oc.Err != nil && oc.State == "failed" {
			e := oc.Err.Error()
			if len(e) > 60 {
				e = e[:60]
			}
			t.Obs("echoing_peer|error|"+e, 1)
		}
		if c, ok := oc.Value.(*doerner.ConfigSender); ok {
			if fx.IntOf(c.SecretShare).Cmp(old[string(dm.K.SID)]) == 0 {
				t.Violation("doerner|refresh-cancelled-by-peer", "a receiver that echoed the sender's refresh contribution completed the refresh and left the honest sender's share unchanged")
			}
		}
	}
	if i == 0 {
		t.Sample(map[string]any{"kind": "doerner refresh against a peer echoing the refresh scalar", "sender_state": fx.Describe(outs)})
	}
}

// c08ForeignPeer: a refresh in which one participant runs from altered key material (a share of its own choosing,
// otherwise well-formed messages and valid proofs).  An honest party that completes must still report the old
// group key; it may also refuse.
func c08ForeignPeer(t *vk.T, proto string, i int) {
	r := t.Rng
	foreign := LibScalar(randScalarBig(r))
	check := func(tag string, key ref.Pt, outs []fx.Outcome, corrupt party.ID, keyOf func(v interface{}) (ref.Pt, bool)) {
		t.Obs("evaluations", 1)
		for _, oc := range outs {
			if oc.ID == corrupt {
				continue
			}
			t.Obs("foreign_share_peer|honest_"+oc.State, 1)
			if oc.Value == nil {
				continue
			}
			got, ok := keyOf(oc.Value)
			if !ok {
				continue
			}
			if !got.Equal(key) {
				t.Violation(proto+"|refresh-with-foreign-share-peer|group-key-changed", "%s: honest %q completed a refresh against a peer using a share of its own choosing and now reports another group key", tag, oc.ID)
			}
		}
	}
	switch proto {
	case "doerner":
		ids := fx.IDs(r, i%4, 2)
		dm, err := fx.NewDoernerMat(r, ids[0], ids[1], fx.Opt{SessionID: r.Bytes(4)})
		if err != nil {
			t.Violation("doerner|keygen-failed", "%v", err)
			return
		}
		key := fx.SharesOfDoerner(dm.K)[0].GroupKey
		R, S := *dm.K.R, *dm.K.S
		corrupt := dm.K.RID
		if i%2 == 0 {
			R.SecretShare = foreign
		} else {
			S.SecretShare = foreign
			corrupt = dm.K.SID
		}
		_, outs, err := fx.RunTwo(r, dm.K.RID, dm.K.SID, doerner.RefreshReceiver(&R, dm.K.RID, dm.K.SID, nil), doerner.RefreshSender(&S, dm.K.SID, dm.K.RID, nil), true, false, fx.Opt{SessionID: r.Bytes(4)})
		if err != nil {
			t.Obs("foreign_share_peer|refused_at_start", 1)
			return
		}
		t.Distinct("doerner|refresh-with-foreign-share-peer|corrupt-receiver=%v|alphabet=%d", i%2 == 0, i%4)
		check(fmt.Sprintf("doerner corrupt=%q", corrupt), key, outs, corrupt, func(v interface{}) (ref.Pt, bool) {
			switch c := v.(type) {
			case *doerner.ConfigSender:
				p, err := fx.PtOf(c.Public)
				return p, err == nil
			case *doerner.ConfigReceiver:
				p, err := fx.PtOf(c.Public)
				return p, err == nil
			}
			return ref.Pt{}, false
		})
	case "frost":
		n, th := 3+i%2, 1
		ids := fx.IDs(r, i%3, n)
		fm, err := fx.NewFrostMat(r, ids, th, fx.Opt{})
		if err != nil {
			t.Inconclusive("keygen: %v", err)
			return
		}
		key := fm.Shares()[0].GroupKey
		corrupt := ids[i%n]
		_, outs, err := fx.RunMulti(r, ids, func(id party.ID) protocol.StartFunc {
			c := fx.CloneFrost(fm.Cfgs[id])
			if id == corrupt {
				c.PrivateShare = foreign
			}
			return frost.Refresh(c, ids)
		}, fx.Opt{})
		if err != nil {
			t.Obs("foreign_share_peer|refused_at_start", 1)
			return
		}
		t.Distinct("frost|refresh-with-foreign-share-peer|n=%d|position=%d", n, i%n)
		check(fmt.Sprintf("frost n=%d corrupt=%q", n, corrupt), key, outs, corrupt, func(v interface{}) (ref.Pt, bool) {
			if c, ok := v.(*frost.Config); ok {
				p, err := fx.PtOf(c.PublicKey)
				return p, err == nil
			}
			return ref.Pt{}, false
		})
	}
}
