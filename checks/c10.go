package checks

import (
	"bytes"
	"crypto/rand"
	"fmt"
	"math/big"
	"reflect"
	"strings"

	"github.com/cronokirby/saferith"
	"github.com/taurusgroup/multi-party-sig/internal/elgamal"
	"github.com/taurusgroup/multi-party-sig/pkg/hash"
	"github.com/taurusgroup/multi-party-sig/pkg/math/curve"
	"github.com/taurusgroup/multi-party-sig/pkg/paillier"
	"github.com/taurusgroup/multi-party-sig/pkg/pedersen"
	zkaffg "github.com/taurusgroup/multi-party-sig/pkg/zk/affg"
	zkaffp "github.com/taurusgroup/multi-party-sig/pkg/zk/affp"
	zkdec "github.com/taurusgroup/multi-party-sig/pkg/zk/dec"
	zkelog "github.com/taurusgroup/multi-party-sig/pkg/zk/elog"
	zkenc "github.com/taurusgroup/multi-party-sig/pkg/zk/enc"
	zkencelg "github.com/taurusgroup/multi-party-sig/pkg/zk/encelg"
	zkfac "github.com/taurusgroup/multi-party-sig/pkg/zk/fac"
	zklog "github.com/taurusgroup/multi-party-sig/pkg/zk/log"
	zklogstar "github.com/taurusgroup/multi-party-sig/pkg/zk/logstar"
	zkmod "github.com/taurusgroup/multi-party-sig/pkg/zk/mod"
	zkmul "github.com/taurusgroup/multi-party-sig/pkg/zk/mul"
	zkmulstar "github.com/taurusgroup/multi-party-sig/pkg/zk/mulstar"
	zknth "github.com/taurusgroup/multi-party-sig/pkg/zk/nth"
	zkprm "github.com/taurusgroup/multi-party-sig/pkg/zk/prm"
	zksch "github.com/taurusgroup/multi-party-sig/pkg/zk/sch"
	"github.com/taurusgroup/multi-party-sig/verif/fx"
	"github.com/taurusgroup/multi-party-sig/verif/ref"
	"github.com/taurusgroup/multi-party-sig/verif/vk"
)

func init() {
	vk.Register(&vk.Check{
		ID:    "C10",
		Level: "exploration",
		Rule: "all 15 proof systems driven directly with 2048-bit parameters from the prime pool: completeness on a boundary lattice of witnesses; binding by replacing every public-input field with that of another valid instance, swapping same-typed inputs, changing the context hash, replacing every proof field by the same field of another valid proof (same statement other randomness / other statement) and by +-1/negation/zero, and by proving with a witness far outside the range; " +
			"distinct non-trivial = distinct (system, witness class) that verified plus distinct (system, perturbed field, perturbation kind) that were judged",
		MinDistinct:  150,
		Assumptions:  []string{"a panic inside Verify on a perturbed input is tallied and counted as 'not accepted' (crash safety is C05)", "perturbations that leave the value unchanged are skipped"},
		Cases:        c10Cases,
		CaseTimeoutS: 1800,
	})
}

// zkEnv is the key material of one instance.
type zkEnv struct {
	prover, verifier c12Key
	aux              *pedersen.Parameters // verifier's Pedersen parameters
	auxLambda        *saferith.Nat
}

func zkEnvAt(i int) zkEnv {
	e := zkEnv{prover: c12KeyAt(2 * i), verifier: c12KeyAt(2*i + 1)}
	e.aux, e.auxLambda = e.verifier.sk.GeneratePedersen()
	return e
}

// zkEnvIndependentAux: the auxiliary Pedersen parameters live over a modulus that is neither the prover's nor the
// verifier's Paillier modulus (the proof systems take them as an independent input).
func zkEnvIndependentAux(i int) zkEnv {
	e := zkEnv{prover: c12KeyAt(2 * i), verifier: c12KeyAt(2*i + 1)}
	e.aux, e.auxLambda = c12KeyAt(2*i + 2).sk.GeneratePedersen()
	return e
}

// zkInst is one (statement, proof) pair behind a uniform interface.
type zkInst struct {
	pub    reflect.Value // addressable struct value of the system's Public type (or a wrapper)
	prove  func(h *hash.Hash) interface{}
	verify func(h *hash.Hash, pub reflect.Value, proof interface{}) bool
}

type zkSystem struct {
	name    string
	classes []string // witness classes; "out-of-range" must be rejected
	build   func(r *vk.Rand, e zkEnv, class string) *zkInst
}

func bigWitness(r *vk.Rand, class string, bits uint) *big.Int {
	one := big.NewInt(1)
	top := new(big.Int).Sub(new(big.Int).Lsh(one, bits), one)
	switch class {
	case "0":
		return big.NewInt(0)
	case "+1":
		return big.NewInt(1)
	case "-1":
		return big.NewInt(-1)
	case "+max":
		return top
	case "-max":
		return new(big.Int).Neg(top)
	case "out-of-range":
		return new(big.Int).Lsh(one, bits+600)
	case "out-of-range-neg":
		return new(big.Int).Neg(new(big.Int).Lsh(one, bits+600))
	case "out-of-range-huge":
		return new(big.Int).Lsh(one, 1900) // still a legal Paillier plaintext, far beyond every proven range
	}
	x := new(big.Int).SetBytes(r.Bytes(int(bits) / 8))
	if r.Bool() {
		x.Neg(x)
	}
	return x
}

// xyWitness exercises the two range checks of the affine proofs separately.
func xyWitness(r *vk.Rand, class string) (x, y *big.Int) {
	switch class {
	case "out-of-range-x":
		return bigWitness(r, "out-of-range", 256), bigWitness(r, "random", 1280)
	case "out-of-range-neg-x":
		return bigWitness(r, "out-of-range-neg", 256), bigWitness(r, "random", 1280)
	case "out-of-range-y":
		return bigWitness(r, "random", 256), bigWitness(r, "out-of-range", 1280)
	case "out-of-range-neg-y":
		return bigWitness(r, "random", 256), bigWitness(r, "out-of-range-neg", 1280)
	}
	return bigWitness(r, class, 256), bigWitness(r, class, 1280)
}

func scalarWitness(r *vk.Rand, class string) *big.Int {
	switch class {
	case "1":
		return big.NewInt(1)
	case "q-1":
		return new(big.Int).Sub(ref.Q, big.NewInt(1))
	case "2":
		return big.NewInt(2)
	}
	return randScalarBig(r)
}

var rangeClasses = []string{"0", "+1", "-1", "+max", "-max", "random", "out-of-range", "out-of-range-neg", "out-of-range-huge"}
var rangeClassesXY = []string{"0", "+1", "-1", "+max", "-max", "random", "out-of-range-x", "out-of-range-y", "out-of-range-neg-x", "out-of-range-neg-y"}
var scalarClasses = []string{"1", "q-1", "2", "random"}

func modQ(x *big.Int) curve.Scalar { return LibScalar(new(big.Int).Mod(x, ref.Q)) }

var zkSystems = []zkSystem{
	{"enc", rangeClasses, func(r *vk.Rand, e zkEnv, class string) *zkInst {
		k := bigWitness(r, class, 256)
		K, rho := e.prover.sk.PublicKey.Enc(intOf(k))
		pub := zkenc.Public{K: K, Prover: e.prover.sk.PublicKey, Aux: e.aux}
		priv := zkenc.Private{K: intOf(k), Rho: rho} // one witness object for every proof made from this instance
		return &zkInst{pub: addr(pub),
			prove: func(h *hash.Hash) interface{} { return zkenc.NewProof(group, h, pub, priv) },
			verify: func(h *hash.Hash, p reflect.Value, pr interface{}) bool {
				return pr.(*zkenc.Proof).Verify(group, h, p.Interface().(zkenc.Public))
			}}
	}},
	{"logstar", rangeClasses, func(r *vk.Rand, e zkEnv, class string) *zkInst {
		x := bigWitness(r, class, 256)
		G := LibScalar(randScalarBig(r)).ActOnBase()
		C, rho := e.prover.sk.PublicKey.Enc(intOf(x))
		pub := zklogstar.Public{C: C, X: modQ(x).Act(G), G: G, Prover: e.prover.sk.PublicKey, Aux: e.aux}
		priv := zklogstar.Private{X: intOf(x), Rho: rho} // one witness object for every proof made from this instance
		return &zkInst{pub: addr(pub),
			prove: func(h *hash.Hash) interface{} { return zklogstar.NewProof(group, h, pub, priv) },
			verify: func(h *hash.Hash, p reflect.Value, pr interface{}) bool {
				return pr.(*zklogstar.Proof).Verify(h, p.Interface().(zklogstar.Public))
			}}
	}},
	{"encelg", rangeClasses, func(r *vk.Rand, e zkEnv, class string) *zkInst {
		x := bigWitness(r, class, 256)
		a, b := LibScalar(randScalarBig(r)), LibScalar(randScalarBig(r))
		abx := group.NewScalar().Set(a).Mul(b).Add(modQ(x))
		C, rho := e.prover.sk.PublicKey.Enc(intOf(x))
		pub := zkencelg.Public{C: C, A: a.ActOnBase(), B: b.ActOnBase(), X: abx.ActOnBase(), Prover: e.prover.sk.PublicKey, Aux: e.aux}
		priv := zkencelg.Private{X: intOf(x), Rho: rho, A: a, B: b} // one witness object for every proof made from this instance
		return &zkInst{pub: addr(pub),
			prove: func(h *hash.Hash) interface{} { return zkencelg.NewProof(group, h, pub, priv) },
			verify: func(h *hash.Hash, p reflect.Value, pr interface{}) bool {
				return pr.(*zkencelg.Proof).Verify(h, p.Interface().(zkencelg.Public))
			}}
	}},
	{"dec", []string{"0", "+1", "-1", "+max", "-max", "random"}, func(r *vk.Rand, e zkEnv, class string) *zkInst {
		y := bigWitness(r, class, 256)
		C, rho := e.prover.sk.PublicKey.Enc(intOf(y))
		pub := zkdec.Public{C: C, X: modQ(y), Prover: e.prover.sk.PublicKey, Aux: e.aux}
		priv := zkdec.Private{Y: intOf(y), Rho: rho} // one witness object for every proof made from this instance
		return &zkInst{pub: addr(pub),
			prove: func(h *hash.Hash) interface{} { return zkdec.NewProof(group, h, pub, priv) },
			verify: func(h *hash.Hash, p reflect.Value, pr interface{}) bool {
				return pr.(*zkdec.Proof).Verify(h, p.Interface().(zkdec.Public))
			}}
	}},
	{"affg", rangeClassesXY, func(r *vk.Rand, e zkEnv, class string) *zkInst {
		x, y := xyWitness(r, class)
		kv, _ := e.verifier.sk.PublicKey.Enc(intOf(randScalarBig(r)))
		ver, prov := e.verifier.sk.PublicKey, e.prover.sk.PublicKey
		Fp, R := prov.Enc(intOf(y))
		D, S := ver.Enc(intOf(y))
		D.Add(ver, kv.Clone().Mul(ver, intOf(x)))
		pub := zkaffg.Public{Kv: kv, Dv: D, Fp: Fp, Xp: modQ(x).ActOnBase(), Prover: prov, Verifier: ver, Aux: e.aux}
		priv := zkaffg.Private{X: intOf(x), Y: intOf(y), S: S, R: R} // one witness object for every proof made from this instance
		return &zkInst{pub: addr(pub),
			prove: func(h *hash.Hash) interface{} {
				return zkaffg.NewProof(group, h, pub, priv)
			},
			verify: func(h *hash.Hash, p reflect.Value, pr interface{}) bool {
				return pr.(*zkaffg.Proof).Verify(h, p.Interface().(zkaffg.Public))
			}}
	}},
	{"affp", rangeClassesXY, func(r *vk.Rand, e zkEnv, class string) *zkInst {
		x, y := xyWitness(r, class)
		ver, prov := e.verifier.sk.PublicKey, e.prover.sk.PublicKey
		kv, _ := ver.Enc(intOf(randScalarBig(r)))
		Xp, Rx := prov.Enc(intOf(x))
		Fp, R := prov.Enc(intOf(y))
		D, S := ver.Enc(intOf(y))
		D.Add(ver, kv.Clone().Mul(ver, intOf(x)))
		pub := zkaffp.Public{Kv: kv, Dv: D, Fp: Fp, Xp: Xp, Prover: prov, Verifier: ver, Aux: e.aux}
		priv := zkaffp.Private{X: intOf(x), Y: intOf(y), S: S, Rx: Rx, R: R} // one witness object for every proof made from this instance
		return &zkInst{pub: addr(pub),
			prove: func(h *hash.Hash) interface{} {
				return zkaffp.NewProof(group, h, pub, priv)
			},
			verify: func(h *hash.Hash, p reflect.Value, pr interface{}) bool {
				return pr.(*zkaffp.Proof).Verify(group, h, p.Interface().(zkaffp.Public))
			}}
	}},
	{"mul", []string{"0", "+1", "-1", "+max", "-max", "random"}, func(r *vk.Rand, e zkEnv, class string) *zkInst {
		x := bigWitness(r, class, 256)
		prov := e.prover.sk.PublicKey
		X, rhoX := prov.Enc(intOf(x))
		Y, _ := prov.Enc(intOf(bigWitness(r, "random", 256)))
		C := Y.Clone().Mul(prov, intOf(x))
		rho := C.Randomize(prov, nil)
		pub := zkmul.Public{X: X, Y: Y, C: C, Prover: prov}
		priv := zkmul.Private{X: intOf(x), Rho: rho, RhoX: rhoX} // one witness object for every proof made from this instance
		return &zkInst{pub: addr(pub),
			prove: func(h *hash.Hash) interface{} { return zkmul.NewProof(group, h, pub, priv) },
			verify: func(h *hash.Hash, p reflect.Value, pr interface{}) bool {
				return pr.(*zkmul.Proof).Verify(group, h, p.Interface().(zkmul.Public))
			}}
	}},
	{"mulstar", rangeClasses, func(r *vk.Rand, e zkEnv, class string) *zkInst {
		x := bigWitness(r, class, 256)
		ver := e.verifier.sk.PublicKey
		C, _ := ver.Enc(intOf(bigWitness(r, "random", 256)))
		D := C.Clone().Mul(ver, intOf(x))
		rho := D.Randomize(ver, nil)
		pub := zkmulstar.Public{C: C, D: D, X: modQ(x).ActOnBase(), Verifier: ver, Aux: e.aux}
		priv := zkmulstar.Private{X: intOf(x), Rho: rho} // one witness object for every proof made from this instance
		return &zkInst{pub: addr(pub),
			prove: func(h *hash.Hash) interface{} { return zkmulstar.NewProof(group, h, pub, priv) },
			verify: func(h *hash.Hash, p reflect.Value, pr interface{}) bool {
				return pr.(*zkmulstar.Proof).Verify(group, h, p.Interface().(zkmulstar.Public))
			}}
	}},
	{"nth", []string{"random", "1"}, func(r *vk.Rand, e zkEnv, class string) *zkInst {
		N := e.verifier.sk.PublicKey
		rhoB := new(big.Int).SetBytes(r.Bytes(255))
		rhoB.Mod(rhoB, e.verifier.ref.N)
		if class == "1" || rhoB.Sign() == 0 {
			rhoB = big.NewInt(1)
		}
		rho := natOf(rhoB)
		R := N.ModulusSquared().Exp(rho, N.N().Nat())
		pub := zknth.Public{N: N, R: R}
		priv := zknth.Private{Rho: rho} // one witness object for every proof made from this instance
		return &zkInst{pub: addr(pub),
			prove: func(h *hash.Hash) interface{} { return zknth.NewProof(h, pub, priv) },
			verify: func(h *hash.Hash, p reflect.Value, pr interface{}) bool {
				return pr.(*zknth.Proof).Verify(h, p.Interface().(zknth.Public))
			}}
	}},
	{"log", scalarClasses, func(r *vk.Rand, e zkEnv, class string) *zkInst {
		a, b := LibScalar(scalarWitness(r, class)), LibScalar(randScalarBig(r))
		H := b.ActOnBase()
		pub := zklog.Public{H: H, X: a.ActOnBase(), Y: a.Act(H)}
		priv := zklog.Private{A: a, B: b} // one witness object for every proof made from this instance
		return &zkInst{pub: addr(pub),
			prove: func(h *hash.Hash) interface{} { return zklog.NewProof(group, h, pub, priv) },
			verify: func(h *hash.Hash, p reflect.Value, pr interface{}) bool {
				return pr.(*zklog.Proof).Verify(h, p.Interface().(zklog.Public))
			}}
	}},
	{"elog", scalarClasses, func(r *vk.Rand, e zkEnv, class string) *zkInst {
		H := LibScalar(randScalarBig(r)).ActOnBase()
		X := LibScalar(randScalarBig(r)).ActOnBase()
		y := LibScalar(scalarWitness(r, class))
		E, lambda := elgamal.Encrypt(X, y)
		pub := zkelog.Public{E: E, ElGamalPublic: X, Base: H, Y: y.Act(H)}
		priv := zkelog.Private{Y: y, Lambda: lambda} // one witness object for every proof made from this instance
		return &zkInst{pub: addr(pub),
			prove: func(h *hash.Hash) interface{} { return zkelog.NewProof(group, h, pub, priv) },
			verify: func(h *hash.Hash, p reflect.Value, pr interface{}) bool {
				return pr.(*zkelog.Proof).Verify(h, p.Interface().(zkelog.Public))
			}}
	}},
	{"sch", scalarClasses, func(r *vk.Rand, e zkEnv, class string) *zkInst {
		x := LibScalar(scalarWitness(r, class))
		type schPub struct{ X, Gen curve.Point }
		gen := group.NewBasePoint()
		if class == "2" { // a non-default generator
			gen = LibScalar(randScalarBig(r)).ActOnBase()
		}
		pub := schPub{X: x.Act(gen), Gen: gen}
		return &zkInst{pub: addr(pub),
			prove: func(h *hash.Hash) interface{} { return zksch.NewProof(h, pub.X, x, pub.Gen) },
			verify: func(h *hash.Hash, p reflect.Value, pr interface{}) bool {
				pp := p.Interface().(schPub)
				return pr.(*zksch.Proof).Verify(h, pp.X, pp.Gen)
			}}
	}},
	{"mod", []string{"key"}, func(r *vk.Rand, e zkEnv, class string) *zkInst {
		sk := e.prover.sk
		pub := zkmod.Public{N: sk.PublicKey.N()}
		priv := zkmod.Private{P: sk.P(), Q: sk.Q(), Phi: sk.Phi()} // one witness object for every proof made from this instance
		return &zkInst{pub: addr(pub),
			prove: func(h *hash.Hash) interface{} { return zkmod.NewProof(h, priv, pub, nil) },
			verify: func(h *hash.Hash, p reflect.Value, pr interface{}) bool {
				return pr.(*zkmod.Proof).Verify(p.Interface().(zkmod.Public), h, nil)
			}}
	}},
	{"prm", []string{"key"}, func(r *vk.Rand, e zkEnv, class string) *zkInst {
		sk := e.prover.sk
		ped, lambda := sk.GeneratePedersen()
		pub := zkprm.Public{Aux: ped}
		priv := zkprm.Private{Lambda: lambda, Phi: sk.Phi(), P: sk.P(), Q: sk.Q()} // one witness object for every proof made from this instance
		return &zkInst{pub: addr(pub),
			prove: func(h *hash.Hash) interface{} {
				return zkprm.NewProof(priv, h, pub, nil)
			},
			verify: func(h *hash.Hash, p reflect.Value, pr interface{}) bool {
				return pr.(*zkprm.Proof).Verify(p.Interface().(zkprm.Public), h, nil)
			}}
	}},
	{"fac", []string{"key", "out-of-range-small-factor"}, func(r *vk.Rand, e zkEnv, class string) *zkInst {
		sk := e.prover.sk
		pub := zkfac.Public{N: sk.PublicKey.N(), Aux: e.aux}
		priv := zkfac.Private{P: sk.P(), Q: sk.Q()} // one witness object for every proof made from this instance
		if class == "out-of-range-small-factor" {
			// N = (61-bit prime) * (1987-bit prime): a 2048-bit modulus that does have a small factor; the statement
			// "no small factor" is false and a proof by the ordinary prover must not verify
			ps, _ := rand.Prime(rand.Reader, 61)
			pl, _ := rand.Prime(rand.Reader, 1987)
			n := new(big.Int).Mul(ps, pl)
			pub = zkfac.Public{N: saferith.ModulusFromNat(natOf(n)), Aux: e.aux}
			priv = zkfac.Private{P: natOf(ps), Q: natOf(pl)}
		}
		return &zkInst{pub: addr(pub),
			prove: func(h *hash.Hash) interface{} { return zkfac.NewProof(priv, h, pub) },
			verify: func(h *hash.Hash, p reflect.Value, pr interface{}) bool {
				return pr.(*zkfac.Proof).Verify(p.Interface().(zkfac.Public), h)
			}}
	}},
}

// addr returns an addressable copy of a struct value.
func addr(v interface{}) reflect.Value {
	p := reflect.New(reflect.TypeOf(v))
	p.Elem().Set(reflect.ValueOf(v))
	return p.Elem()
}

func cloneStruct(v reflect.Value) reflect.Value {
	c := reflect.New(v.Type()).Elem()
	c.Set(v)
	return c
}

// cloneProof copies a proof struct (and its embedded commitment struct) one level deep.
func cloneProof(p interface{}) interface{} {
	v := reflect.ValueOf(p)
	if v.Kind() != reflect.Ptr || v.IsNil() {
		return p
	}
	c := reflect.New(v.Elem().Type())
	c.Elem().Set(v.Elem())
	for i := 0; i < c.Elem().NumField(); i++ {
		f := c.Elem().Field(i)
		if f.Kind() == reflect.Ptr && !f.IsNil() && f.Elem().Kind() == reflect.Struct && c.Elem().Type().Field(i).Anonymous && f.CanSet() {
			n := reflect.New(f.Elem().Type())
			n.Elem().Set(f.Elem())
			f.Set(n)
		}
	}
	return c.Interface()
}

type leaf struct {
	path string
	v    reflect.Value
}

// leaves enumerates settable leaf fields (exported) of a struct value.
func leaves(v reflect.Value, path string, out *[]leaf) {
	switch v.Kind() {
	case reflect.Ptr:
		if v.IsNil() {
			return
		}
		t := v.Type().String()
		if t == "*saferith.Int" || t == "*saferith.Nat" || t == "*big.Int" || t == "*paillier.Ciphertext" || t == "*paillier.PublicKey" || t == "*pedersen.Parameters" || t == "*saferith.Modulus" {
			if v.CanSet() {
				*out = append(*out, leaf{path, v})
			}
			return
		}
		leaves(v.Elem(), path, out)
	case reflect.Interface:
		if !v.IsNil() && v.CanSet() {
			*out = append(*out, leaf{path, v})
		}
	case reflect.Bool:
		if v.CanSet() {
			*out = append(*out, leaf{path, v})
		}
	case reflect.Struct:
		for i := 0; i < v.NumField(); i++ {
			sf := v.Type().Field(i)
			if !sf.IsExported() && !sf.Anonymous {
				continue
			}
			if !sf.IsExported() && sf.Anonymous && sf.Type.Kind() != reflect.Ptr && sf.Type.Kind() != reflect.Struct {
				continue
			}
			name := sf.Name
			leaves(v.Field(i), path+"."+name, out)
		}
	case reflect.Array, reflect.Slice:
		n := v.Len()
		if n == 0 {
			return
		}
		for _, i := range []int{0, n / 2, n - 1} {
			leaves(v.Index(i), fmt.Sprintf("%s[%s]", path, posClass(i, n)), out)
		}
	}
}

func same(a, b reflect.Value) bool {
	return fmt.Sprintf("%v", describe(a)) == fmt.Sprintf("%v", describe(b))
}

func describe(v reflect.Value) string {
	if !v.IsValid() || ((v.Kind() == reflect.Ptr || v.Kind() == reflect.Interface) && v.IsNil()) {
		return "nil"
	}
	switch x := v.Interface().(type) {
	case *saferith.Int:
		return x.Big().String()
	case *saferith.Nat:
		return x.Big().String()
	case *big.Int:
		return x.String()
	case *paillier.Ciphertext:
		return x.Nat().Big().String()
	case *paillier.PublicKey:
		return x.N().Big().String()
	case *pedersen.Parameters:
		return x.N().Big().String() + "/" + x.S().Big().String() + "/" + x.T().Big().String()
	case *saferith.Modulus:
		return x.Big().String()
	case curve.Scalar:
		return IntOf(x).String()
	case curve.Point:
		b, _ := x.MarshalBinary()
		return fmt.Sprintf("%x", b)
	case bool:
		return fmt.Sprint(x)
	}
	return fmt.Sprintf("%#v", v.Interface())
}

// tweaks returns altered values for a leaf, by type.
func tweaks(v reflect.Value) map[string]reflect.Value {
	out := map[string]reflect.Value{}
	one := big.NewInt(1)
	switch x := v.Interface().(type) {
	case *saferith.Int:
		b := x.Big()
		out["plus1"] = reflect.ValueOf(intOf(new(big.Int).Add(b, one)))
		out["negated"] = reflect.ValueOf(intOf(new(big.Int).Neg(b)))
		out["zero"] = reflect.ValueOf(intOf(big.NewInt(0)))
	case *saferith.Nat:
		b := x.Big()
		out["plus1"] = reflect.ValueOf(natOf(new(big.Int).Add(b, one)))
		out["zero"] = reflect.ValueOf(natOf(big.NewInt(0)))
	case *big.Int:
		out["plus1"] = reflect.ValueOf(new(big.Int).Add(x, one))
		out["zero"] = reflect.ValueOf(big.NewInt(0))
	case *paillier.Ciphertext:
		out["plus1"] = reflect.ValueOf(ctOf(new(big.Int).Add(x.Nat().Big(), one)))
	case curve.Scalar:
		out["plus1"] = reflect.ValueOf(LibScalar(new(big.Int).Add(IntOf(x), one))).Convert(v.Type())
		out["zero"] = reflect.ValueOf(LibScalar(big.NewInt(0))).Convert(v.Type())
	case curve.Point:
		out["negated"] = reflect.ValueOf(x.Negate()).Convert(v.Type())
		out["generator"] = reflect.ValueOf(group.NewBasePoint()).Convert(v.Type())
	case bool:
		out["flipped"] = reflect.ValueOf(!x)
	}
	return out
}

func c10Cases(env vk.Env) []vk.Case {
	var cs []vk.Case
	nenv := env.Pick(1, 3)
	for ei := 0; ei < nenv; ei++ {
		for si := range zkSystems {
			sys := zkSystems[si]
			for ci, class := range sys.classes {
				if !env.Thorough() && ei == 0 {
					// quick: full perturbation lattice on two classes per system, completeness only on the others
				}
				ei, si, ci, class := ei, si, ci, class
				full := env.Thorough() || ci == len(sys.classes)-1 || ci == 0 || class == "random"
				if sys.name == "nth" && class == "1" {
					// rho = 1 gives R = 1: the verification equation Z^N = A*R^e holds for every challenge e, so this
					// (trivially true) statement cannot be context-bound by any proof; completeness only.
					full = false
				}
				cs = append(cs, vk.Case{ID: fmt.Sprintf("%s/%s/env%d", sys.name, class, ei), Run: func(t *vk.T) { c10Run(t, zkSystems[si], class, ei, full) }})
			}
		}
	}
	// every system once more with auxiliary parameters over an independent modulus (completeness + reuse; binding
	// lattice in thorough)
	for si := range zkSystems {
		sys := zkSystems[si]
		si := si
		class := sys.classes[len(sys.classes)-1]
		for _, c := range sys.classes {
			if c == "random" || c == "key" {
				class = c
			}
		}
		cs = append(cs, vk.Case{ID: fmt.Sprintf("%s/%s/independent-aux", sys.name, class), Run: func(t *vk.T) { c10Run(t, zkSystems[si], class, 100, env.Thorough()) }})
	}
	for i := 0; i < env.Pick(2, 20); i++ {
		i := i
		cs = append(cs, vk.Case{ID: fmt.Sprintf("sch/witnessless-identity/%d", i), Run: func(t *vk.T) { c10SchDegenerate(t, i) }})
	}
	for ei := 0; ei < nenv; ei++ {
		ei := ei
		cs = append(cs, vk.Case{ID: fmt.Sprintf("prm/challenge-monitor/env%d", ei), Run: func(t *vk.T) { c10PrmChallenges(t, ei, env.Pick(48, 96)) }})
	}
	return cs
}

// c10TranscriptCoverage observes (hook H3) what the verifier absorbs into its transcript while it recomputes the
// challenge of an honest proof, and demands that every public input of the statement is among it: a public input that
// only appears in the verification equations can be chosen after the challenge is known (weak Fiat-Shamir).
func c10TranscriptCoverage(t *vk.T, sys zkSystem, inst *zkInst, h *hash.Hash, proof interface{}, class string) {
	var items [][]byte
	hash.VerifWrite = func(_ string, data []byte) { items = append(items, append([]byte{}, data...)) }
	ok := false
	vk.Guard(func() { ok = inst.verify(h.Clone(), inst.pub, proof) })
	hash.VerifWrite = nil
	if !ok || len(items) == 0 {
		t.Obs("transcript_observations_unavailable", 1)
		return
	}
	var pl []leaf
	leaves(cloneStruct(inst.pub), "", &pl)
	covered := 0
	for _, l := range pl {
		var enc []byte
		v := l.v.Interface()
		switch x := v.(type) {
		case hash.WriterToWithDomain:
			var buf bytes.Buffer
			if _, err := x.WriteTo(&buf); err != nil {
				continue
			}
			enc = buf.Bytes()
		case interface{ MarshalBinary() ([]byte, error) }:
			b, err := x.MarshalBinary()
			if err != nil {
				continue
			}
			enc = b
		default:
			continue
		}
		if len(enc) == 0 {
			continue
		}
		found := false
		for _, it := range items {
			if bytes.Equal(it, enc) || (len(enc) >= 16 && bytes.Contains(it, enc)) {
				found = true
				break
			}
		}
		t.Obs("public_inputs_looked_for_in_transcript", 1)
		if found {
			covered++
			continue
		}
		t.Violation(sys.name+"|public-input-not-in-challenge-transcript|"+l.path, "%s: while verifying an honest proof (witness class %s) the verifier absorbed %d items into its transcript, none of which is the public input %s (%d bytes): the challenge does not depend on it", sys.name, class, len(items), l.path, len(enc))
	}
	t.Distinct("%s|transcript-covers-%d-public-inputs", sys.name, covered)
}

func c10Verify(t *vk.T, inst *zkInst, h *hash.Hash, pub reflect.Value, proof interface{}) (accepted bool, panicked bool) {
	p, _, _ := vk.Guard(func() { accepted = inst.verify(h.Clone(), pub, proof) })
	t.Obs("evaluations", 1)
	if p {
		t.Obs("verify_panics_on_perturbed_input", 1)
		return false, true
	}
	return accepted, false
}

func c10Run(t *vk.T, sys zkSystem, class string, ei int, full bool) {
	r := t.Rng
	e := zkEnvAt(ei)
	if ei >= 100 { // environments 100+ use independent auxiliary parameters
		e = zkEnvIndependentAux(ei - 100)
		ei -= 100
	}
	h := hash.New(hash.BytesWithDomain{TheDomain: "ctx", Bytes: r.Bytes(8)}, hash.BytesWithDomain{TheDomain: "party", Bytes: []byte("alice")})
	outOfRange := strings.HasPrefix(class, "out-of-range")
	inst := sys.build(r, e, class)
	var proof interface{}
	if p, fr, txt := vk.Guard(func() { proof = inst.prove(h.Clone()) }); p {
		if outOfRange {
			t.Obs("prover_refused_out_of_range", 1)
			t.Distinct("%s|out-of-range|prover-refused", sys.name)
			return
		}
		t.Violation(sys.name+"|prover-panic|"+class+"|"+fr, "prover panicked on an in-range witness: %s", txt)
		return
	}
	ok, vpanic := c10Verify(t, inst, h, inst.pub, proof)
	if outOfRange {
		t.Distinct("%s|%s|rejected=%v", sys.name, class, !ok)
		if vpanic {
			t.Violation(sys.name+"|verifier-panics-on-out-of-range-proof|"+class, "the verifier panicked on a proof the ordinary prover made for an out-of-range witness (class %s) instead of rejecting it", class)
			return
		}
		if ok {
			t.Violation(sys.name+"|out-of-range-accepted|"+class, "a proof made with a witness 600 bits beyond the proven range verified")
		}
		return
	}
	if !ok {
		t.Violation(sys.name+"|completeness|"+class, "an honestly generated proof for witness class %s does not verify", class)
		return
	}
	t.Distinct("%s|complete|%s", sys.name, class)
	c10TranscriptCoverage(t, sys, inst, h, proof, class)
	// the same prover proves the same statement again from the very same witness objects (one proof per recipient):
	// completeness must not depend on how often the witness was used
	var proofAgain interface{}
	if p, fr, txt := vk.Guard(func() {
		proofAgain = inst.prove(h.Fork(hash.BytesWithDomain{TheDomain: "recipient", Bytes: []byte("second")}))
	}); p {
		t.Violation(sys.name+"|prover-panic-on-reuse|"+class+"|"+fr, "prover panicked when the witness was used for a second proof: %s", txt)
		return
	}
	if ok2, _ := c10Verify(t, inst, h.Fork(hash.BytesWithDomain{TheDomain: "recipient", Bytes: []byte("second")}), inst.pub, proofAgain); !ok2 {
		t.Violation(sys.name+"|completeness-on-witness-reuse|"+class, "a second honest proof made from the same witness objects (class %s) does not verify", class)
		return
	}
	t.Obs("second_proofs_from_same_witness", 1)
	if !full {
		return
	}
	// second instance (other statement, other keys) and a second proof of the same statement
	e2 := zkEnvAt(ei + 1)
	inst2 := sys.build(r, e2, "random")
	if sys.classes[0] == "key" {
		inst2 = sys.build(r, e2, "key")
	} else if sys.classes[0] == "1" {
		inst2 = sys.build(r, e2, "random")
	}
	proof2 := inst2.prove(h.Clone())
	if ok2, _ := c10Verify(t, inst2, h, inst2.pub, proof2); !ok2 {
		t.Violation(sys.name+"|completeness|second-instance", "second instance does not verify")
		return
	}
	proof1b := inst.prove(h.Clone())

	expectReject := func(kind, field string, pub reflect.Value, pr interface{}, hh *hash.Hash) {
		acc, pan := c10Verify(t, inst, hh, pub, pr)
		res := "rejected"
		if pan {
			res = "panic"
		}
		t.Distinct("%s|%s|%s", sys.name, kind, field)
		t.Obs("perturbations|"+res, 1)
		if acc {
			t.Violation(sys.name+"|accepted|"+kind+"|"+field, "%s proof still verifies after %s of %s (witness class %s)", sys.name, kind, field, class)
		}
	}

	// context
	expectReject("context-changed", "hash", inst.pub, proof, hash.New(hash.BytesWithDomain{TheDomain: "ctx", Bytes: r.Bytes(8)}, hash.BytesWithDomain{TheDomain: "party", Bytes: []byte("alice")}))
	expectReject("context-other-party", "hash", inst.pub, proof, h.Fork(hash.BytesWithDomain{TheDomain: "party", Bytes: []byte("bob")}))
	expectReject("context-empty", "hash", inst.pub, proof, hash.New())

	// public inputs
	var pl1, pl2 []leaf
	pubc := cloneStruct(inst.pub)
	leaves(pubc, "", &pl1)
	leaves(inst2.pub, "", &pl2)
	for i := range pl1 {
		if i >= len(pl2) || pl1[i].path != pl2[i].path {
			break
		}
		orig := reflect.ValueOf(pl1[i].v.Interface())
		if same(pl1[i].v, pl2[i].v) {
			continue
		}
		pl1[i].v.Set(pl2[i].v)
		expectReject("public-input-replaced", pl1[i].path, pubc, proof, h)
		pl1[i].v.Set(orig)
		for tk, tv := range tweaks(pl1[i].v) {
			if same(tv, pl1[i].v) {
				continue
			}
			pl1[i].v.Set(tv)
			expectReject("public-input-"+tk, pl1[i].path, pubc, proof, h)
			pl1[i].v.Set(orig)
		}
	}
	// swaps of same-typed inputs
	for i := range pl1 {
		for j := i + 1; j < len(pl1); j++ {
			if pl1[i].v.Type() != pl1[j].v.Type() || same(pl1[i].v, pl1[j].v) {
				continue
			}
			a, b := reflect.ValueOf(pl1[i].v.Interface()), reflect.ValueOf(pl1[j].v.Interface())
			if describe(a)[:1] == describe(b)[:1] && false {
				continue
			}
			// only swap values of the same dynamic type
			if a.Type() != b.Type() {
				continue
			}
			pl1[i].v.Set(b)
			pl1[j].v.Set(a)
			expectReject("public-inputs-swapped", pl1[i].path+"<->"+pl1[j].path, pubc, proof, h)
			pl1[i].v.Set(a)
			pl1[j].v.Set(b)
		}
	}
	// moduli that occur in the statement: a response shifted by one of them (or its square) is another encoding of
	// the same residue and must not verify either
	var moduli []*big.Int
	for _, l := range pl1 {
		switch x := l.v.Interface().(type) {
		case *paillier.PublicKey:
			if x != nil {
				moduli = append(moduli, x.N().Big())
			}
		case *pedersen.Parameters:
			if x != nil {
				moduli = append(moduli, x.N().Big())
			}
		case *saferith.Modulus:
			if x != nil {
				moduli = append(moduli, x.Big())
			}
		}
	}
	// proof fields
	pc := cloneProof(proof)
	var fl, flb, fl2 []leaf
	leaves(reflect.ValueOf(pc), "", &fl)
	leaves(reflect.ValueOf(cloneProof(proof1b)), "", &flb)
	leaves(reflect.ValueOf(cloneProof(proof2)), "", &fl2)
	for i := range fl {
		orig := reflect.ValueOf(fl[i].v.Interface())
		if fl[i].v.Kind() == reflect.Bool {
			orig = reflect.ValueOf(fl[i].v.Bool())
		}
		try := func(kind string, nv reflect.Value) {
			if same(nv, fl[i].v) {
				return
			}
			fl[i].v.Set(nv)
			expectReject(kind, fl[i].path, inst.pub, pc, h)
			fl[i].v.Set(orig)
		}
		if i < len(flb) && flb[i].path == fl[i].path {
			try("proof-field-from-other-proof-same-statement", reflect.ValueOf(flb[i].v.Interface()))
		}
		if i < len(fl2) && fl2[i].path == fl[i].path {
			try("proof-field-from-proof-of-other-statement", reflect.ValueOf(fl2[i].v.Interface()))
		}
		for tk, tv := range tweaks(fl[i].v) {
			try("proof-field-"+tk, tv)
		}
		for mi, m := range moduli {
			if mi >= 2 {
				break
			}
			switch x := fl[i].v.Interface().(type) {
			case *saferith.Nat:
				try(fmt.Sprintf("proof-field-plus-modulus%d", mi), reflect.ValueOf(natOf(new(big.Int).Add(x.Big(), m))))
				try(fmt.Sprintf("proof-field-plus-modulus%d-squared", mi), reflect.ValueOf(natOf(new(big.Int).Add(x.Big(), new(big.Int).Mul(m, m)))))
			case *saferith.Int:
				try(fmt.Sprintf("proof-field-plus-modulus%d", mi), reflect.ValueOf(intOf(new(big.Int).Add(x.Big(), m))))
			}
		}
	}
	// parallel rounds transplanted from another valid proof of the same statement and context: the challenge must
	// depend on every commitment, so a hybrid must not verify
	for _, idx := range []int{0, 1, 40, 79} {
		pv := reflect.ValueOf(fx.DeepCopy(proof))
		ov := reflect.ValueOf(fx.DeepCopy(proof1b))
		if pv.Kind() != reflect.Ptr || pv.IsNil() || pv.Elem().Kind() != reflect.Struct {
			break
		}
		moved := 0
		for f := 0; f < pv.Elem().NumField(); f++ {
			a, b := pv.Elem().Field(f), ov.Elem().Field(f)
			if (a.Kind() == reflect.Slice || a.Kind() == reflect.Array) && a.Len() >= 2 && a.Len() == b.Len() && a.Type().Elem().Kind() != reflect.Uint8 && a.Index(0).CanSet() {
				a.Index(idx % a.Len()).Set(b.Index(idx % a.Len()))
				moved++
			}
		}
		if moved == 0 {
			break
		}
		t.Obs("round_transplants", 1)
		expectReject("round-transplanted-from-other-proof-same-statement", fmt.Sprintf("round[%d]", idx), inst.pub, pv.Interface(), h)
	}
	// whole proof of another statement / same statement under the other instance's inputs
	expectReject("proof-of-other-statement", "proof", inst.pub, proof2, h)
	t.Obs("public_fields", int64(len(pl1)))
	t.Obs("proof_fields", int64(len(fl)))
	if class == "random" || class == "key" {
		var paths []string
		for _, l := range fl {
			paths = append(paths, l.path)
		}
		t.Sample(map[string]any{"system": sys.name, "witness_class": class, "public_fields": len(pl1), "proof_field_paths": paths})
	}
}
