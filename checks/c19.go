package checks

import (
	"bytes"
	"encoding/binary"
	"fmt"
	"math/big"

	"github.com/cronokirby/saferith"
	"github.com/taurusgroup/multi-party-sig/internal/round"
	"github.com/taurusgroup/multi-party-sig/internal/types"
	"github.com/taurusgroup/multi-party-sig/pkg/hash"
	"github.com/taurusgroup/multi-party-sig/pkg/math/arith"
	"github.com/taurusgroup/multi-party-sig/pkg/math/polynomial"
	"github.com/taurusgroup/multi-party-sig/pkg/pedersen"
	"github.com/taurusgroup/multi-party-sig/pkg/paillier"
	"github.com/taurusgroup/multi-party-sig/pkg/party"
	"github.com/taurusgroup/multi-party-sig/verif/fx"
	"github.com/taurusgroup/multi-party-sig/verif/ref"
	"github.com/taurusgroup/multi-party-sig/verif/vk"
)

func init() {
	vk.Register(&vk.Check{
		ID:    "C19",
		Level: "exploration",
		Rule: "seeded sequences of typed transcript items and adversarially related sequence pairs (boundary shifts, domain/data shifts, split/merge, retype with equal bytes, permutation, an item's own framing pasted as bytes, sign/flag flips); oracle: the independent canonical encodings differ <=> the library digests differ; commitments open only with the exact tuple and their own decommitment; " +
			"distinct non-trivial = distinct (pair family, item types involved) for pairs whose canonical encodings differ, plus distinct commitment alteration kinds",
		MinDistinct: 25,
		Assumptions: []string{"the abstract identity of an item is (type tag, canonical value bytes) computed by harness code independent of the library's WriteTo", "blake3 collision resistance (a chance collision has probability 2^-256)"},
		Cases:       c19Cases,
	})
}

// aitem is an abstract item: its identity (Tag, Val) and the Go value handed to the library.
type aitem struct {
	Tag string
	Val []byte
	Lib interface{}
}

func c19Canon(seq []aitem) []byte {
	items := make([]ref.Item, len(seq))
	for i, a := range seq {
		items[i] = ref.Item{Domain: a.Tag, Body: a.Val}
	}
	return ref.Canon(items)
}

func libDigest(seq []aitem) ([]byte, error) {
	h := hash.New()
	for _, a := range seq {
		if err := h.WriteAny(a.Lib); err != nil {
			return nil, err
		}
	}
	return h.Sum(), nil
}

func aBytes(b []byte) aitem { return aitem{"bytes", b, b} }
func aBWD(d string, b []byte) aitem {
	return aitem{"bwd:" + fmt.Sprintf("%d:", len(d)) + d, b, hash.BytesWithDomain{TheDomain: d, Bytes: b}}
}
func aBig(x *big.Int) aitem {
	v := append([]byte{byte(x.Sign() + 1)}, x.Bytes()...)
	return aitem{"bigint", v, x}
}
func aNat(x *big.Int) aitem {
	return aitem{"nat", x.Bytes(), new(saferith.Nat).SetBig(x, x.BitLen())}
}
func aID(s string) aitem   { return aitem{"id", []byte(s), party.ID(s)} }
func aRID(b []byte) aitem  { return aitem{"rid", b, types.RID(b)} }
func aThr(t uint32) aitem  { v := make([]byte, 4); binary.BigEndian.PutUint32(v, t); return aitem{"threshold", v, types.ThresholdWrapper(t)} }
func aRnd(n uint16) aitem  { v := make([]byte, 2); binary.BigEndian.PutUint16(v, n); return aitem{"round", v, round.Number(n)} }
func aMsg(b []byte) aitem  { return aitem{"sigmsg", b, types.SigningMessage(b)} }
func aComm(b []byte) aitem { return aitem{"commitment", b, hash.Commitment(b)} }
func aDecomm(b []byte) aitem {
	return aitem{"decommitment", b, hash.Decommitment(b)}
}
func aPoint(k *big.Int) aitem {
	p := ref.MulG(k)
	return aitem{"point", p.Compress(), LibPoint(p)}
}
func aScalar(k *big.Int) aitem {
	v := make([]byte, 32)
	new(big.Int).Mod(k, ref.Q).FillBytes(v)
	return aitem{"scalar", v, LibScalar(k)}
}
func aCipher(x *big.Int) aitem {
	ct := &paillier.Ciphertext{}
	nb, _ := new(saferith.Nat).SetBig(x, x.BitLen()).MarshalBinary()
	_ = ct.UnmarshalBinary(nb)
	return aitem{"ciphertext", x.Bytes(), ct}
}
func aIDs(ids []string) aitem {
	var v []byte
	pid := make([]party.ID, len(ids))
	for i, s := range ids {
		var l [4]byte
		binary.BigEndian.PutUint32(l[:], uint32(len(s)))
		v = append(append(v, l[:]...), s...)
		pid[i] = party.ID(s)
	}
	return aitem{"idslice", v, party.NewIDSlice(pid)}
}
func aExp(r *vk.Rand, deg int, constant bool) aitem {
	poly := polynomial.NewPolynomial(group, deg, LibScalar(randScalarBig(r)))
	if constant {
		poly = polynomial.NewPolynomial(group, deg, nil)
	}
	e := polynomial.NewPolynomialExponent(poly)
	b, _ := e.MarshalBinary()
	tag := "exponent"
	return aitem{tag, b, e}
}

func randItem(r *vk.Rand) aitem {
	switch r.Intn(15) {
	case 0:
		return aBytes(r.Bytes(r.Intn(40)))
	case 1:
		return aBWD(string(r.Bytes(r.Intn(6))), r.Bytes(r.Intn(40)))
	case 2:
		x := new(big.Int).SetBytes(r.Bytes(1 + r.Intn(40)))
		if r.Bool() {
			x.Neg(x)
		}
		return aBig(x)
	case 3:
		return aNat(new(big.Int).SetBytes(r.Bytes(1 + r.Intn(40))))
	case 4:
		return aID(string(append([]byte{'p'}, r.Bytes(r.Intn(8))...)))
	case 5:
		return aRID(r.Bytes(32))
	case 6:
		return aThr(uint32(r.U64()))
	case 7:
		return aRnd(uint16(r.U64()))
	case 8:
		return aMsg(r.Bytes(1 + r.Intn(64)))
	case 9:
		return aPoint(randScalarBig(r))
	case 10:
		return aScalar(randScalarBig(r))
	case 11:
		return aCipher(new(big.Int).SetBytes(r.Bytes(1 + r.Intn(512))))
	case 12:
		return aExp(r, 1+r.Intn(3), r.Intn(4) == 0)
	case 13:
		return aComm(r.Bytes(64))
	}
	return aDecomm(r.Bytes(32))
}

// frame is the library's documented framing of one (domain, body) item, used to build "framing pasted as bytes" attacks.
func frame(domain string, body []byte, withDomLen, withBodyLen bool) []byte {
	return frameW(domain, body, withDomLen, withBodyLen, 8)
}

// frameW frames with length fields of w bytes (weakened framings truncate lengths).
func frameW(domain string, body []byte, withDomLen, withBodyLen bool, w int) []byte {
	var out []byte
	var n [8]byte
	out = append(out, '(')
	if withDomLen {
		binary.BigEndian.PutUint64(n[:], uint64(len(domain)))
		out = append(out, n[8-w:]...)
	}
	out = append(out, domain...)
	if withBodyLen {
		binary.BigEndian.PutUint64(n[:], uint64(len(body)))
		out = append(out, n[8-w:]...)
	}
	out = append(out, body...)
	return append(out, ')')
}

type pair struct {
	family string
	a, b   []aitem
}

func c19Pairs(r *vk.Rand) []pair {
	var ps []pair
	x, y, z := r.Bytes(1+r.Intn(20)), r.Bytes(1+r.Intn(20)), r.Bytes(1+r.Intn(5))
	cat := func(bs ...[]byte) []byte { return bytes.Join(bs, nil) }
	// boundary shifts between adjacent items of the same type
	ps = append(ps, pair{"shift-bytes", []aitem{aBytes(cat(x, z)), aBytes(y)}, []aitem{aBytes(x), aBytes(cat(z, y))}})
	ps = append(ps, pair{"shift-sigmsg", []aitem{aMsg(cat(x, z)), aMsg(y)}, []aitem{aMsg(x), aMsg(cat(z, y))}})
	ps = append(ps, pair{"shift-id", []aitem{aID("p" + string(x) + string(z)), aID("q" + string(y))}, []aitem{aID("p" + string(x)), aID(string(z) + "q" + string(y))}})
	// identifiers that differ only where a fixed-width or padded encoding would not look: a trailing NUL, a tail
	// beyond 32 bytes, padding to 32 bytes; the same as single items, inside identifier lists and for byte strings
	{
		short := "p" + string(x)
		if len(short) > 20 {
			short = short[:20]
		}
		long := string(r.Bytes(32))
		padded := short + string(make([]byte, 32-len(short)))
		for _, pp := range [][2]string{{short, short + "\x00"}, {short, padded}, {long + "A", long + "B"}, {long, long + "\x00"}, {long[:31], long[:31] + "\x00"}} {
			ps = append(ps, pair{"id-tail", []aitem{aID(pp[0])}, []aitem{aID(pp[1])}})
			ps = append(ps, pair{"id-tail-in-list", []aitem{aIDs([]string{pp[0], "zz"})}, []aitem{aIDs([]string{pp[1], "zz"})}})
			ps = append(ps, pair{"bytes-tail", []aitem{aBytes([]byte(pp[0]))}, []aitem{aBytes([]byte(pp[1]))}})
			ps = append(ps, pair{"sigmsg-tail", []aitem{aMsg([]byte(pp[0]))}, []aitem{aMsg([]byte(pp[1]))}})
		}
	}
	// thresholds and round numbers that agree in their low byte(s)
	for _, tp := range [][2]uint32{{1, 257}, {0, 256}, {2, 2 + 1<<16}, {3, 3 + 1<<24}, {255, 255 + 1<<31}} {
		ps = append(ps, pair{"threshold-low-bytes", []aitem{aThr(tp[0])}, []aitem{aThr(tp[1])}})
	}
	for _, rp := range [][2]uint16{{1, 257}, {0, 256}, {5, 5 + 1<<15}} {
		ps = append(ps, pair{"round-low-byte", []aitem{aRnd(rp[0])}, []aitem{aRnd(rp[1])}})
	}
	// domain/data shift
	ps = append(ps, pair{"shift-domain-data", []aitem{aBWD("ab", []byte("c"))}, []aitem{aBWD("a", []byte("bc"))}})
	ps = append(ps, pair{"shift-domain-data", []aitem{aBWD(string(x)+string(z), y)}, []aitem{aBWD(string(x), cat(z, y))}})
	// split / merge
	ps = append(ps, pair{"split-merge", []aitem{aBytes(cat(x, y))}, []aitem{aBytes(x), aBytes(y)}})
	ps = append(ps, pair{"split-merge-empty", []aitem{aBytes(x)}, []aitem{aBytes(x), aBytes([]byte{})}})
	ps = append(ps, pair{"split-merge-empty", []aitem{}, []aitem{aBytes([]byte{})}})
	// retype with equal bytes
	b32 := r.Bytes(32)
	b64 := r.Bytes(64)
	rt := []aitem{aBytes(b32), aRID(b32), aMsg(b32), aBWD("", b32), aBWD("custom", b32), aDecomm(b32), aID(string(b32)), aNat(new(big.Int).SetBytes(b32)), aBig(new(big.Int).SetBytes(b32)), aCipher(new(big.Int).SetBytes(b32))}
	for i := range rt {
		for j := i + 1; j < len(rt); j++ {
			if bytes.Equal(c19Canon([]aitem{rt[i]}), c19Canon([]aitem{rt[j]})) {
				continue
			}
			ps = append(ps, pair{"retype:" + short(rt[i].Tag) + "/" + short(rt[j].Tag), []aitem{rt[i]}, []aitem{rt[j]}})
		}
	}
	ps = append(ps, pair{"retype:commitment/bytes", []aitem{aComm(b64)}, []aitem{aBytes(b64)}})
	// permutation
	i1, i2 := randItem(r), randItem(r)
	ps = append(ps, pair{"permutation", []aitem{i1, i2}, []aitem{i2, i1}})
	// sign / flag flips, near values
	v := new(big.Int).SetBytes(r.Bytes(1 + r.Intn(30)))
	v.Add(v, big.NewInt(1))
	ps = append(ps, pair{"bigint-sign", []aitem{aBig(v)}, []aitem{aBig(new(big.Int).Neg(v))}})
	ps = append(ps, pair{"bigint-plus1", []aitem{aBig(v)}, []aitem{aBig(new(big.Int).Add(v, big.NewInt(1)))}})
	ps = append(ps, pair{"bigint-shift8", []aitem{aBig(v)}, []aitem{aBig(new(big.Int).Lsh(v, 8))}})
	ps = append(ps, pair{"nat-shift8", []aitem{aNat(v)}, []aitem{aNat(new(big.Int).Lsh(v, 8))}})
	ps = append(ps, pair{"threshold-near", []aitem{aThr(1)}, []aitem{aThr(256)}})
	ps = append(ps, pair{"threshold-vs-round", []aitem{aThr(3)}, []aitem{aRnd(3)}})
	ps = append(ps, pair{"round-near", []aitem{aRnd(2)}, []aitem{aRnd(3)}})
	k := randScalarBig(r)
	ps = append(ps, pair{"point-negated", []aitem{aPoint(k)}, []aitem{aPoint(new(big.Int).Sub(ref.Q, k))}})
	ps = append(ps, pair{"point-vs-scalar", []aitem{aPoint(k)}, []aitem{aScalar(k)}})
	// numbers of realistic width that differ only in their high part / only in their low part (a fixed-width or
	// truncating encoding of wide values would identify them): ciphertexts live below N^2 (4096 bits), moduli and
	// naturals at 2048 bits
	for _, w := range []int{512, 384, 256, 200} {
		base := new(big.Int).SetBytes(r.Bytes(w))
		base.SetBit(base, 8*w-1, 1)
		hi := new(big.Int).Xor(base, new(big.Int).Lsh(big.NewInt(1), uint(8*w-9-r.Intn(8*w/2-16))))
		lo := new(big.Int).Xor(base, new(big.Int).Lsh(big.NewInt(1), uint(r.Intn(64))))
		ps = append(ps, pair{fmt.Sprintf("ciphertext-%dB-high-bit", w), []aitem{aCipher(base)}, []aitem{aCipher(hi)}})
		ps = append(ps, pair{fmt.Sprintf("ciphertext-%dB-low-bit", w), []aitem{aCipher(base)}, []aitem{aCipher(lo)}})
		ps = append(ps, pair{fmt.Sprintf("nat-%dB-high-bit", w), []aitem{aNat(base)}, []aitem{aNat(hi)}})
		ps = append(ps, pair{fmt.Sprintf("bigint-%dB-high-bit", w), []aitem{aBig(base)}, []aitem{aBig(hi)}})
	}
	// identifier lists whose members embed what a weakened framing would put between two identifiers
	for _, sep := range []string{"\x00\x00\x00\x00\x00\x00\x00\x02", "\x00\x00\x00\x02", "\x00\x00\x00\x00\x00\x00\x00\x01", "\x00", ","} {
		ps = append(ps, pair{fmt.Sprintf("idslice-embedded-separator-%x", sep), []aitem{aIDs([]string{"a", "b" + sep + "c"})}, []aitem{aIDs([]string{"a" + sep + "b", "c"})}})
	}
	for _, sep := range []string{"\x00\x00\x00\x00\x00\x00\x00\x03", "\x00\x00\x00\x03"} {
		ps = append(ps, pair{fmt.Sprintf("idslice3-embedded-separator-%x", sep), []aitem{aIDs([]string{"a", "b" + sep + "c", "x"})}, []aitem{aIDs([]string{"a" + sep + "b", "c", "x"})}})
	}
	// ring-Pedersen parameters (N, s, t) whose s is one byte shorter than the modulus: moving the first byte of t
	// onto the end of s keeps the plain concatenation, the parameters differ
	{
		nB := r.Bytes(256)
		nB[0] |= 0x80
		nB[255] |= 1
		sB := r.Bytes(255)
		sB[0] |= 0x40
		tB := r.Bytes(256)
		tB[0] |= 0x01
		tB[1] |= 0x01
		s2 := append(append([]byte{}, sB...), tB[0])
		t2 := append([]byte{}, tB[1:]...)
		mkPed := func(n, sv, tv []byte) aitem {
			var v []byte
			for _, part := range [][]byte{n, sv, tv} {
				var l [4]byte
				binary.BigEndian.PutUint32(l[:], uint32(len(part)))
				v = append(append(v, l[:]...), part...)
			}
			return aitem{"pedersen", v, pedersen.New(arith.ModulusFromN(saferith.ModulusFromBytes(n)), new(saferith.Nat).SetBytes(sv), new(saferith.Nat).SetBytes(tv))}
		}
		ps = append(ps, pair{"pedersen-boundary-shift", []aitem{mkPed(nB, sB, tB)}, []aitem{mkPed(nB, s2, t2)}})
	}
	e1 := aExp(r, 2, false)
	e2 := aExp(r, 2, false)
	ps = append(ps, pair{"exponent-other", []aitem{e1}, []aitem{e2}})
	// the same stored points read as X*(A1 + A2*X + ...) (identity constant term) and as A1 + A2*X + ...
	{
		ec := aExp(r, 2, true)
		if le, ok := ec.Lib.(*polynomial.Exponent); ok && le.IsConstant {
			c := fx.DeepCopy(le)
			c.IsConstant = false
			if b, err := c.MarshalBinary(); err == nil {
				ps = append(ps, pair{"exponent-constant-flag", []aitem{ec}, []aitem{{"exponent", b, c}}})
			}
		}
	}
	// an item vs. its own framing pasted as bytes, for the documented framing and for weakened framings
	for _, dl := range []bool{true, false} {
		for _, bl := range []bool{true, false} {
			// [bytes(x), bytes(y)]  vs  [bytes(x ++ ")" ++ frame-open of second item ++ y)]
			f2 := frame("[]byte", y, dl, bl)
			pasted := cat(x, []byte(")"), f2[:len(f2)-1])
			ps = append(ps, pair{fmt.Sprintf("framing-pasted(domlen=%v,bodylen=%v)", dl, bl), []aitem{aBytes(x), aBytes(y)}, []aitem{aBytes(pasted)}})
			// domain swallowing the length field: (d, P ++ len(B2) ++ B2) vs (d ++ len ++ P, B2)
			var n [8]byte
			binary.BigEndian.PutUint64(n[:], uint64(len(y)))
			b1 := cat(x, n[:], y)
			binary.BigEndian.PutUint64(n[:], uint64(len(b1)))
			d2 := "a" + string(n[:]) + string(x)
			if !dl {
				ps = append(ps, pair{"domain-swallows-length", []aitem{aBWD("a", b1)}, []aitem{aBWD(d2, y)}})
			}
		}
	}
	// length fields truncated to w bytes: a long item swallows the next item's header
	for _, w := range []int{1, 2} {
		ylen := (1 << uint(8*w)) - 2 - 2*w - len("[]byte")
		yy := r.Bytes(ylen)
		f2 := frameW("[]byte", yy, true, true, w)
		pasted := cat(x, []byte(")"), f2[:len(f2)-1])
		ps = append(ps, pair{fmt.Sprintf("length-truncation(w=%d)", w), []aitem{aBytes(x), aBytes(yy)}, []aitem{aBytes(pasted)}})
	}
	// lengths that agree modulo 256
	long := r.Bytes(256 + 3)
	ps = append(ps, pair{"length-mod-256", []aitem{aBytes(long[:3]), aBytes(long[3:])}, []aitem{aBytes(long)}})
	// random unrelated sequences
	var s1, s2 []aitem
	for i := 0; i < 1+r.Intn(5); i++ {
		s1 = append(s1, randItem(r))
	}
	for i := 0; i < 1+r.Intn(5); i++ {
		s2 = append(s2, randItem(r))
	}
	ps = append(ps, pair{"random", s1, s2})
	// equal sequences built twice (determinism), incl. fork vs. sequential write
	ps = append(ps, pair{"equal", s1, append([]aitem{}, s1...)})
	return ps
}

func c19Cases(env vk.Env) []vk.Case {
	var cs []vk.Case
	for i := 0; i < env.Pick(40, 6000); i++ {
		i := i
		cs = append(cs, vk.Case{ID: fmt.Sprintf("pairs/%d", i), Run: func(t *vk.T) { c19RunPairs(t, i) }})
	}
	for i := 0; i < env.Pick(20, 1600); i++ {
		i := i
		cs = append(cs, vk.Case{ID: fmt.Sprintf("commit/%d", i), Run: func(t *vk.T) { c19Commit(t, i) }})
	}
	for i := 0; i < env.Pick(4, 60); i++ {
		i := i
		cs = append(cs, vk.Case{ID: fmt.Sprintf("composite/%d", i), Run: func(t *vk.T) { c19Composite(t, i) }})
	}
	return cs
}

func short(s string) string {
	if len(s) > 3 {
		return s[:3]
	}
	return s
}

func tagsOf(seq []aitem) string {
	s := ""
	for _, a := range seq {
		tg := a.Tag
		if len(tg) > 4 {
			tg = tg[:4]
		}
		s += tg + ","
	}
	return s
}

func c19RunPairs(t *vk.T, i int) {
	for rep := 0; rep < 8; rep++ {
		for _, p := range c19Pairs(t.Rng) {
			ca, cb := c19Canon(p.a), c19Canon(p.b)
			da, ea := libDigest(p.a)
			db, eb := libDigest(p.b)
			t.Obs("evaluations", 1)
			if ea != nil || eb != nil {
				// an item the library refuses to hash cannot collide
				t.Obs("refused_items", 1)
				continue
			}
			same := bytes.Equal(ca, cb)
			if same {
				t.Obs("pairs_equal", 1)
				if !bytes.Equal(da, db) {
					t.Violation("hash|nondeterministic|"+p.family, "equal sequences (%s) gave different digests", tagsOf(p.a))
				}
				// Fork/Clone equivalence
				h := hash.New()
				f := h.Fork()
				for _, a := range p.a {
					f = f.Fork(a.Lib)
				}
				if !bytes.Equal(f.Sum(), da) {
					t.Violation("hash|fork-differs", "forking item by item differs from writing the sequence")
				}
				// state independence: a clone's writes stay in the clone, and reading a digest does not disturb the state
				if len(p.a) >= 2 {
					k := len(p.a) / 2
					pre, _ := libDigest(p.a[:k])
					o := hash.New()
					for _, a := range p.a[:k] {
						_ = o.WriteAny(a.Lib)
					}
					c := o.Clone()
					for _, a := range p.a[k:] {
						_ = c.WriteAny(a.Lib)
					}
					s1 := o.Sum()
					_, _ = o.Digest().Read(make([]byte, 70))
					s2 := o.Sum()
					for _, a := range p.a[k:] {
						_ = o.WriteAny(a.Lib)
					}
					t.Obs("state_independence_checks", 1)
					switch {
					case !bytes.Equal(s1, pre) || !bytes.Equal(s2, pre):
						t.Violation("hash|clone-or-digest-disturbs-state", "after cloning (and writing to the clone) or reading a digest, the original state no longer hashes to the digest of its own prefix")
					case !bytes.Equal(c.Sum(), da):
						t.Violation("hash|clone-differs", "a clone continued with the remaining items differs from writing the whole sequence")
					case !bytes.Equal(o.Sum(), da):
						t.Violation("hash|sum-finalises-state", "writing the remaining items after Sum()/Digest() does not give the digest of the whole sequence")
					}
				}
				continue
			}
			t.Obs("pairs_different", 1)
			fam := p.family
			t.Distinct("pair|%s", fam)
			if bytes.Equal(da, db) {
				t.Violation("hash|collision|"+fam, "different sequences collide: A=(%s) %x  B=(%s) %x digest=%x", tagsOf(p.a), ca, tagsOf(p.b), cb, da[:8])
			}
			if rep == 0 && i == 0 && (fam == "shift-bytes" || fam == "retype:byt/rid") {
				t.Sample(map[string]any{"family": fam, "A": tagsOf(p.a), "B": tagsOf(p.b), "canonA": fmt.Sprintf("%x", ca), "canonB": fmt.Sprintf("%x", cb)})
			}
		}
	}
}

func c19Commit(t *vk.T, i int) {
	r := t.Rng
	var seq []aitem
	for k := 0; k < 1+r.Intn(4); k++ {
		seq = append(seq, randItem(r))
	}
	libs := func(s []aitem) []interface{} {
		out := make([]interface{}, len(s))
		for i, a := range s {
			out[i] = a.Lib
		}
		return out
	}
	ctx := hash.New(hash.BytesWithDomain{TheDomain: "ctx", Bytes: r.Bytes(8)})
	c, d, err := ctx.Commit(libs(seq)...)
	if err != nil {
		t.Obs("refused_items", 1)
		return
	}
	t.Obs("evaluations", 1)
	if !ctx.Decommit(c, d, libs(seq)...) {
		t.Violation("commit|honest-opening-refused", "Decommit refused the exact tuple (%s)", tagsOf(seq))
	}
	c2, d2, _ := ctx.Commit(libs(seq)...)
	if bytes.Equal(d, d2) {
		t.Violation("commit|decommitment-repeats", "two commitments used the same decommitment")
	}
	type alt struct {
		name string
		c    hash.Commitment
		d    hash.Decommitment
		s    []aitem
		h    *hash.Hash
	}
	flip := func(b []byte) []byte { o := append([]byte{}, b...); o[r.Intn(len(o))] ^= 1 << uint(r.Intn(8)); return o }
	other := randItem(r)
	for bytes.Equal(c19Canon([]aitem{other}), c19Canon([]aitem{seq[0]})) {
		other = randItem(r)
	}
	changed := append([]aitem{other}, seq[1:]...)
	added := append(append([]aitem{}, seq...), other)
	alts := []alt{
		{"other-decommitment", c, d2, seq, ctx},
		{"other-commitment", c2, d, seq, ctx},
		{"commitment-bitflip", flip(c), d, seq, ctx},
		{"decommitment-bitflip", c, flip(d), seq, ctx},
		{"commitment-zero", make([]byte, 64), d, seq, ctx},
		{"decommitment-zero", c, make([]byte, 32), seq, ctx},
		{"commitment-short", c[:63], d, seq, ctx},
		{"commitment-long", append(append([]byte{}, c...), 0), d, seq, ctx},
		{"decommitment-short", c, d[:31], seq, ctx},
		{"decommitment-long", c, append(append([]byte{}, d...), 0), seq, ctx},
		{"commitment-nil", nil, d, seq, ctx},
		{"decommitment-nil", c, nil, seq, ctx},
		{"item-changed", c, d, changed, ctx},
		{"item-added", c, d, added, ctx},
		{"item-removed", c, d, seq[1:], ctx},
		{"other-context", c, d, seq, hash.New(hash.BytesWithDomain{TheDomain: "ctx", Bytes: r.Bytes(8)})},
		{"decommitment-as-item", c, d, append(append([]aitem{}, seq...), aDecomm(d)), ctx},
		// an opening padded with an item the hash refuses, followed by arbitrary values
		{"unhashable-nil-bytes-added", c, d, append(append([]aitem{}, seq...), aitem{"x", nil, []byte(nil)}, other), ctx},
		{"unhashable-nil-bigint-added", c, d, append(append([]aitem{}, seq...), aitem{"x", nil, (*big.Int)(nil)}, other), ctx},
		{"unhashable-type-added", c, d, append(append([]aitem{}, seq...), aitem{"x", nil, 12345}, other), ctx},
		{"unhashable-nil-commitment-added", c, d, append(append([]aitem{}, seq...), aitem{"x", nil, hash.Commitment(nil)}), ctx},
		{"unhashable-replaces-tail", c, d, append(append([]aitem{}, seq[:len(seq)-1]...), aitem{"x", nil, []byte(nil)}), ctx},
	}
	if len(seq) >= 2 && !bytes.Equal(c19Canon(seq[:2]), c19Canon([]aitem{seq[1], seq[0]})) {
		perm := append([]aitem{seq[1], seq[0]}, seq[2:]...)
		alts = append(alts, alt{"items-permuted", c, d, perm, ctx})
	}
	// a zero-valued commitment that would open: craft is infeasible; split/merge of byte items
	bs := r.Bytes(10)
	cm, dm, _ := ctx.Commit(bs[:4], bs[4:])
	alts = append(alts, alt{"items-merged", cm, dm, []aitem{aBytes(bs)}, ctx})
	alts = append(alts, alt{"items-shifted", cm, dm, []aitem{aBytes(bs[:5]), aBytes(bs[5:])}, ctx})
	// a cheating committer chooses the decommitment itself and computes h(data, decommitment) with the library's own
	// primitives: the digest matches, yet a decommitment of wrong length or all zero must be refused
	forge := func(dm hash.Decommitment) hash.Commitment {
		h := ctx.Clone()
		for _, it := range libs(seq) {
			_ = h.WriteAny(it)
		}
		_ = h.WriteAny(dm)
		return h.Sum()
	}
	if bytes.Equal(forge(d), c) { // the hand computation is the one Commit uses (otherwise the forgeries prove nothing)
		t.Obs("forged_commitments", 1)
		for _, fd := range []struct {
			name string
			d    hash.Decommitment
		}{{"zero", make([]byte, 32)}, {"one-byte", []byte{7}}, {"short", bytes.Repeat([]byte{3}, 31)}, {"long", bytes.Repeat([]byte{3}, 33)}, {"empty", []byte{}}, {"nil", nil}} {
			alts = append(alts, alt{"forged-for-" + fd.name + "-decommitment", forge(fd.d), fd.d, seq, ctx})
		}
	}
	for _, a := range alts {
		var ok bool
		if p, fr, txt := vk.Guard(func() { ok = a.h.Decommit(a.c, a.d, libs(a.s)...) }); p {
			t.Violation("commit|panic|"+a.name+"|"+fr, "Decommit panicked: %s", txt)
			continue
		}
		t.Obs("evaluations", 1)
		t.Distinct("commit|%s", a.name)
		if ok {
			t.Violation("commit|opens-wrongly|"+a.name, "Decommit accepted alteration %q of a commitment to (%s)", a.name, tagsOf(seq))
		}
	}
	if i == 0 {
		t.Sample(map[string]any{"kind": "commitment", "tuple": tagsOf(seq), "alterations": len(alts)})
	}
}
