package checks

import (
	"fmt"

	"github.com/taurusgroup/multi-party-sig/pkg/party"
	"github.com/taurusgroup/multi-party-sig/pkg/protocol"
	"github.com/taurusgroup/multi-party-sig/protocols/cmp"
	"github.com/taurusgroup/multi-party-sig/protocols/cmp/presign"
	"github.com/taurusgroup/multi-party-sig/protocols/frost"
	"github.com/taurusgroup/multi-party-sig/verif/detproto"
	"github.com/taurusgroup/multi-party-sig/verif/fx"
	"github.com/taurusgroup/multi-party-sig/verif/sim"
	"github.com/taurusgroup/multi-party-sig/verif/vk"
)

func init() {
	vk.Register(&vk.Check{
		ID:    "C06",
		Level: "fault_enumeration",
		Rule: "the equivocator runs as two real handlers (twins) with the same identity, session and key material and identical randomness up to the chosen broadcast round k, independent randomness from then on, so both payloads are individually valid; honest parties are split into every bipartition (G1 gets twin 1, G2 twin 2), honest messages reach both twins, and messages delivered to a twin are shielded (their echo hash rewritten to the twin's own view) so that only the honest handlers' echo comparison stands in the way; a weaker wire-only variant flips one byte for G2; oracle over the simulator's record of the first delivered broadcast payload per (recipient, round, sender): two honest finishers with different views of a non-final broadcast round are a violation; " +
			"distinct non-trivial = distinct (protocol, n, round k, equivocator position, bipartition, variant) runs in which the two groups really received different round-k payloads",
		MinDistinct:  40,
		Assumptions:  []string{"twins are made identical up to round k-1 by giving them the same deterministic randomness stream (party-keyed crypto/rand.Reader) and the same deliveries in the same order", "authenticated channels: honest-to-honest messages are never modified"},
		Cases:        c06Cases,
		CaseTimeoutS: 2400,
	})
}

type c06Proto struct {
	name   string
	start  func(id party.ID) protocol.StartFunc
	ids    []party.ID
	rounds []int // non-final broadcast rounds
	alt    func(id party.ID) protocol.StartFunc // second twin's start function when the protocol itself is deterministic
	judge  func(t *vk.T, outs []fx.Outcome, tag string)
}

func c06Cases(env vk.Env) []vk.Case {
	var cs []vk.Case
	for _, p := range []string{"detproto", "frost-keygen", "taproot-keygen", "frost-sign", "taproot-sign", "frost-refresh"} {
		for _, n := range []int{3, 4, 5} {
			if n == 5 && !env.Thorough() && p != "detproto" && p != "frost-keygen" {
				continue
			}
			for i := 0; i < env.Pick(1, 6); i++ {
				p, n, i := p, n, i
				cs = append(cs, vk.Case{ID: fmt.Sprintf("%s/n%d/%d", p, n, i), Run: func(t *vk.T) { c06Run(t, p, n, i, env) }})
			}
		}
	}
	cmps := []string{"cmp-keygen", "cmp-sign", "cmp-presign"}
	for _, p := range cmps {
		for i := 0; i < env.Pick(2, 14); i++ {
			p, i := p, i
			cs = append(cs, vk.Case{ID: fmt.Sprintf("%s/n3/%d", p, i), Run: func(t *vk.T) { c06Run(t, p, 3, i, env) }})
		}
	}
	return cs
}

func c06Setup(t *vk.T, name string, n int) *c06Proto {
	r := t.Rng
	ids := fx.IDs(r, r.Intn(3), n)
	p := &c06Proto{name: name, ids: ids}
	switch name {
	case "detproto":
		seed := r.Bytes(4)
		p.start = func(id party.ID) protocol.StartFunc { return detproto.Start(id, ids, seed) }
		seed2 := append([]byte{0xEE}, seed...)
		p.alt = func(id party.ID) protocol.StartFunc { return detproto.Start(id, ids, seed2) }
		p.rounds = []int{2, 3}
	case "frost-keygen":
		p.start = func(id party.ID) protocol.StartFunc { return frost.Keygen(group, id, ids, 1) }
		p.rounds = []int{2}
	case "taproot-keygen":
		p.start = func(id party.ID) protocol.StartFunc { return frost.KeygenTaproot(id, ids, 1) }
		p.rounds = []int{2}
	case "frost-refresh":
		fm, err := fx.NewFrostMat(r, ids, 1, fx.Opt{})
		if err != nil {
			t.Inconclusive("keygen: %v", err)
			return nil
		}
		// every handler (twins included) gets its own copy of the share
		p.start = func(id party.ID) protocol.StartFunc { return frost.Refresh(fx.CloneFrost(fm.Cfgs[id]), ids) }
		p.rounds = []int{2}
	case "frost-sign", "taproot-sign":
		msg := r.Bytes(32)
		if name == "frost-sign" {
			fm, err := fx.NewFrostMat(r, ids, 1, fx.Opt{})
			if err != nil {
				t.Inconclusive("keygen: %v", err)
				return nil
			}
			p.start = func(id party.ID) protocol.StartFunc { return frost.Sign(fx.CloneFrost(fm.Cfgs[id]), ids, msg) }
		} else {
			tm, err := fx.NewTaprootMat(r, ids, 1, fx.Opt{})
			if err != nil {
				t.Inconclusive("keygen: %v", err)
				return nil
			}
			p.start = func(id party.ID) protocol.StartFunc { return frost.SignTaproot(fx.CloneTaproot(tm.Cfgs[id]), ids, msg) }
		}
		p.rounds = []int{2}
	case "cmp-keygen":
		fx.InstallPrimeHook()
		fx.SetPrimeOffset(uint64(r.Intn(1000)))
		p.start = func(id party.ID) protocol.StartFunc { return cmp.Keygen(group, id, ids, 1, nil) }
		p.rounds = []int{2, 3, 4}
	case "cmp-sign", "cmp-presign":
		fx.InstallPrimeHook()
		fx.SetPrimeOffset(uint64(r.Intn(1000)))
		cm := fx.NewCMPMatDealt(ids, 1)
		msg := r.Bytes(32)
		if name == "cmp-sign" {
			p.start = func(id party.ID) protocol.StartFunc { return cmp.Sign(fx.CloneCMP(cm.Cfgs[id]), ids, msg, nil) }
			p.rounds = []int{2, 3, 4}
		} else {
			p.start = func(id party.ID) protocol.StartFunc { return presign.StartPresign(fx.CloneCMP(cm.Cfgs[id]), ids, msg, nil) }
			p.rounds = []int{2, 3, 4, 5, 6, 7}
		}
	}
	return p
}

func c06Run(t *vk.T, name string, n, i int, env vk.Env) {
	p := c06Setup(t, name, n)
	if p == nil {
		return
	}
	r := t.Rng
	ids := p.ids
	// enumerate (round, position, bipartition, variant); expensive protocols take a seeded slice of the lattice
	type plan struct {
		k, pos, mask int
		variant      string
	}
	var plans []plan
	for _, k := range p.rounds {
		for pos := 0; pos < n; pos++ {
			honest := n - 1
			for mask := 1; mask < (1<<uint(honest))-1; mask++ {
				for _, v := range []string{"twins", "twins-round-k-only", "wire-flip", "twins-replay"} {
					plans = append(plans, plan{k, pos, mask, v})
				}
			}
		}
	}
	budget := len(plans)
	cheap := name == "detproto" || name[:3] == "fro" || name[:3] == "tap"
	if cheap {
		if n >= 5 {
			budget = env.Pick(40, 400)
		}
	} else {
		budget = env.Pick(3, 8)
	}
	order := r.Perm(len(plans))
	for c := 0; c < budget && c < len(order); c++ {
		pl := plans[order[c]]
		if !cheap {
			// make sure every round of the expensive protocols is visited across cases
			pl.k = p.rounds[(i*budget+c)%len(p.rounds)]
		}
		c06One(t, p, pl.k, pl.pos, pl.mask, pl.variant, i == 0 && c < 2)
	}
	_ = ids
}

func c06One(t *vk.T, p *c06Proto, k, pos, mask int, variant string, sample bool) {
	r := t.Rng
	ids := p.ids
	E := ids[pos]
	var honest []party.ID
	for _, id := range ids {
		if id != E {
			honest = append(honest, id)
		}
	}
	g2 := map[party.ID]bool{}
	for j, id := range honest {
		if mask&(1<<uint(j)) != 0 {
			g2[id] = true
		}
	}
	kr := fx.NewKeyedRand(r.U64())
	kr.Install()
	defer kr.Uninstall()
	n := sim.New(r)
	sid := r.Bytes(6)
	twins := variant != "wire-flip"
	keyOf := map[*sim.Party]string{}
	n.CurrentParty = func(pp *sim.Party) { kr.CurrentKey(keyOf[pp]) }
	var e1, e2 *sim.Party
	for _, id := range ids {
		if id == E {
			kr.Alias("E#1", "equivocator")
			kr.CurrentKey("E#1")
			h1, err := protocol.NewMultiHandler(p.start(id), sid)
			if err != nil {
				t.Inconclusive("start: %v", err)
				return
			}
			e1 = n.Add(id, h1, true)
			keyOf[e1] = "E#1"
			if twins {
				kr.Alias("E#2", "equivocator")
				if k == 2 {
					kr.Reseed("E#2", 0x5eed)
				}
				kr.CurrentKey("E#2")
				st2 := p.start(id)
				if p.alt != nil && k == 2 {
					st2 = p.alt(id) // a deterministic protocol equivocates through different inputs
				}
				h2, err := protocol.NewMultiHandler(st2, sid)
				if err != nil {
					t.Inconclusive("start: %v", err)
					return
				}
				e2 = n.Add(id, h2, true)
				keyOf[e2] = "E#2"
			}
			continue
		}
		kr.CurrentKey(string(id))
		h, err := protocol.NewMultiHandler(p.start(id), sid)
		if err != nil {
			t.Inconclusive("start: %v", err)
			return
		}
		pp := n.Add(id, h, false)
		keyOf[pp] = string(id)
	}
	ownHash := map[*sim.Party]map[int][]byte{e1: {}}
	if e2 != nil {
		ownHash[e2] = map[int][]byte{}
	}
	emittedRound := map[*sim.Party]int{}
	payload := map[*sim.Party]string{}
	n.OnEmit = func(_ *sim.Net, from *sim.Party, m *protocol.Message) bool {
		if from == e1 || from == e2 {
			rn := int(m.RoundNumber)
			if rn > emittedRound[from] {
				emittedRound[from] = rn
			}
			if m.BroadcastVerification != nil {
				ownHash[from][rn] = m.BroadcastVerification
			}
			if rn == k && m.Broadcast {
				payload[from] = fmt.Sprintf("%x", m.Data)
			}
			// fork the second twin's randomness once it has produced its round k-1 messages
			if from == e2 && rn == k-1 && k > 2 {
				kr.Reseed("E#2", 0x5eed)
			}
		}
		return true
	}
	flipped := false
	n.OnDeliver = func(_ *sim.Net, d *sim.Delivery) []*sim.Delivery {
		tgt := d.Target
		// routing of the equivocator's messages
		if d.Emitter == e1 || (e2 != nil && d.Emitter == e2) {
			toG2 := g2[tgt.ID]
			switch variant {
			case "twins":
				if d.Round < k {
					if d.Emitter == e2 {
						return nil
					}
				} else if (d.Emitter == e1) == toG2 {
					return nil
				}
			case "twins-round-k-only":
				if d.Round == k {
					if (d.Emitter == e1) == toG2 {
						return nil
					}
				} else if d.Emitter == e2 {
					return nil
				}
			case "twins-replay":
				// round k: everybody gets twin 1's payload; G2 additionally gets twin 2's right behind it;
				// afterwards twin 1 serves G1 and twin 2 serves G2, presenting twin 1's echo hash
				switch {
				case d.Round < k:
					if d.Emitter == e2 {
						return nil
					}
				case d.Round == k:
					if d.Emitter == e2 {
						return nil // twin 2's round-k messages are injected right behind twin 1's (below)
					}
					if toG2 {
						out := []*sim.Delivery{d}
						for _, x := range n.Pending {
							if x.Emitter == e2 && x.Target == tgt && x.Round == k && x.Bcast == d.Bcast {
								c := *x
								c.Tag = "second-payload"
								out = append(out, &c)
							}
						}
						return out
					}
				default:
					if (d.Emitter == e1) == toG2 {
						return nil
					}
					if d.Emitter == e2 {
						m := sim.Decode(d.Bytes)
						if h, ok := ownHash[e1][d.Round]; ok && m.BroadcastVerification != nil {
							m.BroadcastVerification = h
							b, _ := m.MarshalBinary()
							c := *d
							c.Bytes = b
							return []*sim.Delivery{&c}
						}
					}
				}
			case "wire-flip":
				if d.Round == k && d.Bcast && toG2 {
					m := sim.Decode(d.Bytes)
					if len(m.Data) > 0 {
						m.Data[len(m.Data)/2] ^= 0x04
						b, _ := m.MarshalBinary()
						c := *d
						c.Bytes = b
						c.Tag = "wire-flip"
						flipped = true
						return []*sim.Delivery{&c}
					}
				}
			}
			return []*sim.Delivery{d}
		}
		// shielding: what a twin receives carries the twin's own view hash
		if tgt == e1 || (e2 != nil && tgt == e2) {
			m := sim.Decode(d.Bytes)
			if m.BroadcastVerification != nil {
				if h, ok := ownHash[tgt][d.Round]; ok {
					m.BroadcastVerification = h
					b, _ := m.MarshalBinary()
					c := *d
					c.Bytes = b
					c.Tag = "shielded"
					return []*sim.Delivery{&c}
				}
			}
		}
		return []*sim.Delivery{d}
	}
	// hold deliveries to a twin whose view hash for that round is not known yet
	n.Sched = func(nn *sim.Net) int {
		if variant == "twins-replay" {
			for idx, d := range nn.Pending {
				if d.Emitter == e1 && d.Round == k {
					return idx
				}
			}
		}
		for idx, d := range nn.Pending {
			if (d.Target == e1 || (e2 != nil && d.Target == e2)) && d.Round >= 3 {
				if _, ok := ownHash[d.Target][d.Round]; !ok && emittedRound[d.Target] < d.Round {
					continue
				}
			}
			return idx
		}
		return 0
	}
	n.Run()
	t.Obs("evaluations", 1)
	outs := fx.Outcomes(n)
	differ := flipped
	if twins && e2 != nil {
		differ = payload[e1] != "" && payload[e2] != "" && payload[e1] != payload[e2]
	}
	tag := fmt.Sprintf("%s n=%d k=%d equivocator=%q (position %d) G2=%v variant=%s", p.name, len(ids), k, E, pos, g2, variant)
	if !differ {
		t.Obs("runs_without_effective_equivocation", 1)
		return
	}
	t.Distinct("%s|n=%d|k=%d|pos=%d|mask=%b|%s", p.name, len(ids), k, pos, mask, variant)
	// honest finishers and their views
	var done []party.ID
	for _, o := range outs {
		if o.ID != E && o.State == "done" {
			done = append(done, o.ID)
		}
	}
	t.Obs(fmt.Sprintf("honest_finishers=%d", len(done)), 1)
	for a := 0; a < len(done); a++ {
		for b := a + 1; b < len(done); b++ {
			va, vb := n.Views[done[a]], n.Views[done[b]]
			for rn, senders := range va {
				if rn >= finalRound(p.name) {
					continue
				}
				for s, h := range senders {
					if s == done[b] {
						continue
					}
					if hb, ok := vb[rn][s]; ok && hb != h && s != done[a] {
						key := fmt.Sprintf("%s|split-views|k=%d|%s", p.name, k, variant)
						t.Violation(key, "%s: honest parties %q and %q both completed although they hold different round-%d broadcasts from %q", tag, done[a], done[b], rn, s)
					}
				}
			}
		}
	}
	// honest finishers must also agree on the result itself
	var firstRes []byte
	var firstID party.ID
	for _, o := range outs {
		if o.ID == E || o.State != "done" {
			continue
		}
		b := c06Canon(o.Value)
		if b == nil {
			continue
		}
		if firstRes == nil {
			firstRes, firstID = b, o.ID
		} else if string(b) != string(firstRes) {
			t.Violation(fmt.Sprintf("%s|split-results|k=%d|%s", p.name, k, variant), "%s: honest parties %q and %q both completed with different results", tag, firstID, o.ID)
		}
	}
	if sample {
		t.Sample(map[string]any{"protocol": p.name, "n": len(ids), "round": k, "equivocator": string(E), "G2": fmt.Sprint(g2), "variant": variant, "outcomes": fx.Describe(outs)})
	}
}

func finalRound(name string) int {
	switch name {
	case "detproto":
		return 4
	case "frost-keygen", "taproot-keygen", "frost-refresh", "frost-sign", "taproot-sign":
		return 3
	case "cmp-keygen", "cmp-sign":
		return 5
	}
	return 8
}

// c06Canon returns the part of a result on which all honest finishers must agree (nil if there is none).
func c06Canon(v interface{}) []byte {
	switch c := v.(type) {
	case *frost.Config:
		s := fx.ShareOfFrost(c)
		return append(s.GroupKey.Compress(), s.ChainKey...)
	case *frost.TaprootConfig:
		s := fx.ShareOfTaproot(c)
		return append(s.GroupKey.Compress(), s.ChainKey...)
	case *cmp.Config:
		s := fx.ShareOfCMP(c)
		return append(s.GroupKey.Compress(), s.ChainKey...)
	case *detproto.Result:
		return nil
	}
	return fx.SigBytes(v)
}
