package checks

import (
	"bytes"
	"fmt"
	"math/big"

	"github.com/taurusgroup/multi-party-sig/pkg/ecdsa"
	"github.com/taurusgroup/multi-party-sig/pkg/taproot"
	"github.com/taurusgroup/multi-party-sig/verif/fx"
	"github.com/taurusgroup/multi-party-sig/verif/ref"
	"github.com/taurusgroup/multi-party-sig/verif/vk"
)

func init() {
	vk.Register(&vk.Check{
		ID:    "C16",
		Level: "exploration",
		Rule: "seeded keys x digest lengths x single-field perturbations of valid signatures; each (primitive, perturbation kind, digest/message length class) that the library and the independent reference both judged counts once as distinct; " +
			"non-trivial = the reference accepted at least one and rejected at least one member of the kind",
		MinDistinct: 20,
		Assumptions: []string{"reference ECDSA/BIP-340 in verif/ref (math/big, crypto/sha256), cross-checked against BIP-340 vectors 0-1 at start-up"},
		Cases:       c16Cases,
	})
}

var c16DigestLens = []int{1, 20, 31, 32, 33, 48, 64, 65, 100}

func c16Cases(env vk.Env) []vk.Case {
	var cs []vk.Case
	nb := env.Pick(12, 200)
	for b := 0; b < nb; b++ {
		b := b
		cs = append(cs, vk.Case{ID: fmt.Sprintf("ecdsa/%d", b), Run: func(t *vk.T) { c16ECDSA(t, env.Pick(12, 40)) }})
		cs = append(cs, vk.Case{ID: fmt.Sprintf("bip340/%d", b), Run: func(t *vk.T) { c16BIP340(t, env.Pick(12, 40)) }})
		cs = append(cs, vk.Case{ID: fmt.Sprintf("eth/%d", b), Run: func(t *vk.T) { c16Eth(t, env.Pick(12, 40)) }})
	}
	cs = append(cs, vk.Case{ID: "bip340/vectors", Run: c16Vectors})
	return cs
}

func c16Digest(r *vk.Rand, i int) []byte {
	l := c16DigestLens[i%len(c16DigestLens)]
	d := r.Bytes(l)
	switch r.Intn(6) {
	case 0:
		for j := range d {
			d[j] = 0xff
		}
	case 1:
		for j := range d {
			d[j] = 0
		}
		d[len(d)-1] = 1
	case 2:
		if l >= 32 { // >= group order in the first 32 bytes
			copy(d, ref.Q.Bytes())
			d[31] |= 0x80
		}
	}
	return d
}

func c16ECDSA(t *vk.T, rounds int) {
	r := t.Rng
	for i := 0; i < rounds; i++ {
		d := randScalarBig(r)
		X := ref.MulG(d)
		dig := c16Digest(r, r.Intn(1000))
		k := randScalarBig(r)
		R, s := ref.ECDSASign(d, dig, k)
		if s.Sign() == 0 {
			continue
		}
		type pert struct {
			name string
			R    ref.Pt
			s    *big.Int
			dig  []byte
			X    ref.Pt
		}
		other := ref.MulG(randScalarBig(r))
		qs := new(big.Int).Sub(ref.Q, s)
		dig2 := append([]byte{}, dig...)
		dig2[r.Intn(len(dig2))] ^= 1 << uint(r.Intn(8))
		longer := append(append([]byte{}, dig...), r.Bytes(1+r.Intn(8))...)
		ps := []pert{
			{"valid", R, s, dig, X},
			{"R-negated", R.Neg(), s, dig, X},
			{"R-negated+s-negated", R.Neg(), qs, dig, X},
			{"s-negated", R, qs, dig, X},
			{"R-replaced", other, s, dig, X},
			{"s+1", R, new(big.Int).Add(s, big.NewInt(1)), dig, X},
			{"s-1", R, new(big.Int).Sub(s, big.NewInt(1)), dig, X},
			{"s=0", R, big.NewInt(0), dig, X},
			{"digest-bitflip", R, s, dig2, X},
			{"digest-extended", R, s, longer, X},
			{"key-replaced", R, s, dig, other},
			{"key-negated", R, s, dig, X.Neg()},
		}
		if len(dig) > 1 {
			ps = append(ps, pert{"digest-truncated", R, s, dig[:len(dig)-1], X})
		}
		// a nonce point whose x is = 0 mod q (x = q), if it is on the curve
		if pz, err := ref.LiftX(ref.Q); err == nil {
			ps = append(ps, pert{"r=0(x=q)", pz, s, dig, X})
		}
		// identity nonce point (r = 0), with ordinary and with zero-mapping digests
		zeroDigs := [][]byte{dig, make([]byte, 32), make([]byte, len(dig)), ref.Q.Bytes(), {0}}
		for _, zd := range zeroDigs {
			ps = append(ps, pert{"R-identity", ref.Infinity(), s, zd, X})
		}
		ps = append(ps, pert{"valid-on-zero-digest", R, s, dig, X}) // placeholder replaced below
		{
			zd := make([]byte, 32)
			Rz, sz := ref.ECDSASign(d, zd, k)
			ps[len(ps)-1] = pert{"valid-on-zero-digest", Rz, sz, zd, X}
		}
		for _, p := range ps {
			sm := new(big.Int).Mod(p.s, ref.Q)
			want := ref.ECDSAVerifyPoint(p.X, p.dig, p.R, sm)
			sig := ecdsa.Signature{R: LibPoint(p.R), S: LibScalar(sm)}
			lx := LibPoint(p.X)
			digIn := append([]byte{}, p.dig...)
			got := sig.Verify(lx, digIn)
			// verification is a pure function of its inputs: same verdict when repeated, inputs untouched
			if again := sig.Verify(lx, digIn); again != got || !bytes.Equal(digIn, p.dig) || IntOf(sig.S).Cmp(sm) != 0 {
				t.Violation("ecdsa.Verify|not-repeatable|"+p.name, "a second Verify of the same objects says %v after %v (or the inputs were modified): X=%x digest=%x", again, got, p.X.Compress(), p.dig)
			} else if rp, err := fx.PtOf(sig.R); !p.R.Inf && (err != nil || !rp.Equal(p.R)) {
				t.Violation("ecdsa.Verify|modifies-signature|"+p.name, "Verify changed the signature's R")
			} else if xp, err := fx.PtOf(lx); !p.X.Inf && (err != nil || !xp.Equal(p.X)) {
				t.Violation("ecdsa.Verify|modifies-key|"+p.name, "Verify changed the public key object")
			}
			t.Obs("evaluations", 1)
			if want {
				t.Obs("ecdsa_ref_accept", 1)
			} else {
				t.Obs("ecdsa_ref_reject", 1)
			}
			lc := "le32"
			if len(p.dig) > 32 {
				lc = "gt32"
			}
			t.Distinct("ecdsa-verify|%s|digest-%s|ref=%v", p.name, lc, want)
			if got != want {
				t.Violation("ecdsa.Verify|"+p.name+fmt.Sprintf("|lib=%v|ref=%v", got, want),
					"ecdsa.Signature.Verify=%v but the point equation says %v: X=%x digest=%x R=%x s=%x", got, want, p.X.Compress(), p.dig, p.R.Compress(), sm)
			}
		}
		if i == 0 {
			t.Sample(map[string]any{"primitive": "ecdsa.Verify", "digest_len": len(dig), "X": fmt.Sprintf("%x", X.Compress()), "perturbations": len(ps)})
		}
		// decoder prefixes: a decoded point, whatever prefix was accepted, must be judged like the reference judges the decoded value
		enc := R.Compress()
		for _, pre := range []byte{0, 1, 4, 5, 6, 7, 0xff} {
			e2 := append([]byte{pre}, enc[1:]...)
			lp := group.NewPoint()
			if err := lp.UnmarshalBinary(e2); err != nil {
				t.Obs("point_prefix_rejected", 1)
				continue
			}
			t.Obs("point_prefix_accepted_noncanonical", 1)
			rp, err := PtOf(lp)
			if err != nil {
				continue
			}
			sig := ecdsa.Signature{R: lp, S: LibScalar(s)}
			got := sig.Verify(LibPoint(X), dig)
			want := ref.ECDSAVerifyPoint(X, dig, rp, s)
			t.Obs("evaluations", 1)
			if got != want {
				t.Violation("ecdsa.Verify|noncanonical-prefix", "prefix %#x decoded to %x; Verify=%v, equation=%v", pre, rp.Compress(), got, want)
			}
		}
		// scalar decoder: exactly 32 bytes and < q
		for _, cand := range [][]byte{ref.Q.Bytes(), new(big.Int).Sub(ref.Q, big.NewInt(1)).Bytes(), bytes.Repeat([]byte{0xff}, 32), make([]byte, 32), make([]byte, 31), make([]byte, 33)} {
			ls := group.NewScalar()
			err := ls.UnmarshalBinary(cand)
			v := new(big.Int).SetBytes(cand)
			want := len(cand) == 32 && v.Cmp(ref.Q) < 0
			t.Obs("evaluations", 1)
			t.Distinct("scalar-decode|len=%d|canonical=%v", len(cand), want)
			if (err == nil) != want {
				t.Violation(fmt.Sprintf("scalar.UnmarshalBinary|len=%d|ge-q=%v", len(cand), v.Cmp(ref.Q) >= 0), "scalar decoder accepted=%v canonical=%v for %x", err == nil, want, cand)
			}
		}
	}
}

type fixedReader struct{ b []byte }

func (f *fixedReader) Read(p []byte) (int, error) { return copy(p, f.b), nil }

func c16BIP340(t *vk.T, rounds int) {
	r := t.Rng
	for i := 0; i < rounds; i++ {
		d := randScalarBig(r)
		sk := make([]byte, 32)
		d.FillBytes(sk)
		aux := r.Bytes(32)
		msg := r.Bytes([]int{0, 1, 31, 32, 33, 64, 100, 1000}[r.Intn(8)])
		want, err := ref.BIP340Sign(sk, msg, aux)
		if err != nil {
			continue
		}
		var got taproot.Signature
		var gerr error
		var pk taproot.PublicKey
		if p, _, _ := vk.Guard(func() {
			got, gerr = taproot.SecretKey(sk).Sign(&fixedReader{aux}, msg)
			pk, _ = taproot.SecretKey(sk).Public()
		}); p {
			t.Violation("taproot.Sign|panic", "panic signing sk=%x msg=%x", sk, msg)
			continue
		}
		t.Obs("evaluations", 1)
		t.Distinct("bip340-sign|msglen=%d", len(msg))
		if gerr != nil || !bytes.Equal(got, want) {
			t.Violation("taproot.Sign|differs-from-BIP340", "sk=%x aux=%x msg=%x lib=%x (%v) ref=%x", sk, aux, msg, []byte(got), gerr, want)
		}
		P := ref.MulG(d)
		if !bytes.Equal(pk, P.XBytes()) || len(pk) != 32 {
			t.Violation("taproot.Public|not-xonly", "sk=%x lib=%x ref=%x", sk, []byte(pk), P.XBytes())
		}
		// verification lattice
		dd := new(big.Int).Set(d)
		if P.Y.Bit(0) == 1 {
			dd.Sub(ref.Q, d)
		}
		mk := func(k *big.Int, pkb []byte, forceOddR bool) []byte {
			R := ref.MulG(k)
			kk := new(big.Int).Set(k)
			if (R.Y.Bit(0) == 1) != forceOddR {
				kk.Sub(ref.Q, k)
				R = R.Neg()
			}
			e := new(big.Int).SetBytes(ref.TaggedHash("BIP0340/challenge", R.XBytes(), pkb, msg))
			e.Mod(e, ref.Q)
			s := new(big.Int).Mul(e, dd)
			s.Add(s, kk)
			s.Mod(s, ref.Q)
			out := make([]byte, 64)
			copy(out, R.XBytes())
			s.FillBytes(out[32:])
			return out
		}
		k := randScalarBig(r)
		px := P.XBytes()
		type vc struct {
			name string
			pk   []byte
			sig  []byte
		}
		good := mk(k, px, false)
		flip := func(b []byte, at int) []byte { c := append([]byte{}, b...); c[at] ^= 1; return c }
		sPlusN := func() []byte {
			c := append([]byte{}, good...)
			s := new(big.Int).SetBytes(c[32:])
			s.Add(s, ref.Q)
			if s.BitLen() > 256 {
				return nil
			}
			s.FillBytes(c[32:])
			return c
		}()
		rPlusP := func() []byte {
			c := append([]byte{}, good...)
			x := new(big.Int).SetBytes(c[:32])
			x.Add(x, ref.P)
			if x.BitLen() > 256 {
				return nil
			}
			x.FillBytes(c[:32])
			return c
		}()
		pkPlusP := func() []byte {
			x := new(big.Int).SetBytes(px)
			x.Add(x, ref.P)
			if x.BitLen() > 256 {
				return nil
			}
			o := make([]byte, 32)
			x.FillBytes(o)
			return o
		}()
		// R at infinity: s = e*d with R.x arbitrary -> check point is infinity
		// the recomputed nonce point at infinity: r = x arbitrary (here 0^32 and a random x), s = e*d for the challenge
		// of that r, so that s*G - e*P is the identity; BIP-340 demands failure
		infR := func(rx []byte) []byte {
			e := new(big.Int).SetBytes(ref.TaggedHash("BIP0340/challenge", rx, px, msg))
			e.Mod(e, ref.Q)
			sv := new(big.Int).Mul(e, dd)
			sv.Mod(sv, ref.Q)
			out := make([]byte, 64)
			copy(out, rx)
			sv.FillBytes(out[32:])
			return out
		}
		vcs := []vc{
			{"R-infinite(r=0)", px, infR(make([]byte, 32))},
			{"R-infinite(r=random-x)", px, infR(ref.MulG(randScalarBig(r)).XBytes())},
			{"valid", px, good},
			{"odd-Y-R", px, mk(k, px, true)},
			{"sig-63", px, good[:63]},
			{"sig-65", px, append(append([]byte{}, good...), 0)},
			{"r-bitflip", px, flip(good, 5)},
			{"s-bitflip", px, flip(good, 40)},
			{"msg-other-key", ref.MulG(randScalarBig(r)).XBytes(), good},
			{"s>=n", px, sPlusN},
			{"r>=p", px, rPlusP},
			{"pk>=p", pkPlusP, good},
			{"pk-33-bytes", append(append([]byte{}, px...), 0x00), mk(k, append(append([]byte{}, px...), 0x00), false)},
			{"pk-31-bytes", nil, nil},
			{"pk-empty", []byte{}, good},
		}
		// 31-byte key: only meaningful when px has a leading zero byte; otherwise craft for the padded value
		{
			pk31 := px[1:]
			vcs[11] = vc{"pk-31-bytes", pk31, mk(k, pk31, false)}
		}
		// off-curve key
		for {
			x := r.Bytes(32)
			x[0] &= 0x7f
			if _, err := ref.LiftX(new(big.Int).SetBytes(x)); err != nil {
				vcs = append(vcs, vc{"pk-off-curve", x, good})
				break
			}
		}
		// infinite R: s*G - e*P = inf  <=>  s = e*d
		{
			rx := r.Bytes(32)
			e := new(big.Int).SetBytes(ref.TaggedHash("BIP0340/challenge", rx, px, msg))
			e.Mod(e, ref.Q)
			s := new(big.Int).Mul(e, dd)
			s.Mod(s, ref.Q)
			sig := make([]byte, 64)
			copy(sig, rx)
			s.FillBytes(sig[32:])
			vcs = append(vcs, vc{"R-infinity", px, sig})
		}
		for _, c := range vcs {
			if c.sig == nil || c.pk == nil {
				continue
			}
			want := ref.BIP340Verify(c.pk, msg, c.sig)
			var got bool
			if p, fr, txt := vk.Guard(func() { got = taproot.PublicKey(c.pk).Verify(taproot.Signature(c.sig), msg) }); p {
				t.Violation("taproot.Verify|panic|"+c.name+"|"+fr, "panic %s pk=%x sig=%x", txt, c.pk, c.sig)
				continue
			}
			t.Obs("evaluations", 1)
			if want {
				t.Obs("bip340_ref_accept", 1)
			} else {
				t.Obs("bip340_ref_reject", 1)
			}
			t.Distinct("bip340-verify|%s|ref=%v", c.name, want)
			if got != want {
				t.Violation(fmt.Sprintf("taproot.Verify|%s|lib=%v|ref=%v", c.name, got, want), "pk=%x msg=%x sig=%x lib=%v ref=%v", c.pk, msg, c.sig, got, want)
			}
		}
		if i == 0 {
			t.Sample(map[string]any{"primitive": "taproot.Sign/Verify", "msg_len": len(msg), "pk": fmt.Sprintf("%x", px), "verify_cases": len(vcs)})
		}
	}
}

func c16Vectors(t *vk.T) {
	type v struct{ sk, pk, aux, msg, sig string }
	vs := []v{
		{"0000000000000000000000000000000000000000000000000000000000000003", "F9308A019258C31049344F85F89D5229B531C845836F99B08601F113BCE036F9", "0000000000000000000000000000000000000000000000000000000000000000", "0000000000000000000000000000000000000000000000000000000000000000", "E907831F80848D1069A5371B402410364BDF1C5F8307B0084C55F1CE2DCA821525F66A4A85EA8B71E482A74F382D2CE5EBEEE8FDB2172F477DF4900D310536C0"},
		{"B7E151628AED2A6ABF7158809CF4F3C762E7160F38B4DA56A784D9045190CFEF", "DFF1D77F2A671C5F36183726DB2341BE58FEAE1DA2DECED843240F7B502BA659", "0000000000000000000000000000000000000000000000000000000000000001", "243F6A8885A308D313198A2E03707344A4093822299F31D0082EFA98EC4E6C89", "6896BD60EEAE296DB48A229FF71DFE071BDE413E6D43F917DC8DCF8C78DE33418906D11AC976ABCCB20B091292BFF4EA897EFCB639EA871CFA95F6DE339E4B0A"},
	}
	for i, x := range vs {
		sk, pk, aux, msg, sig := unhex(x.sk), unhex(x.pk), unhex(x.aux), unhex(x.msg), unhex(x.sig)
		got, err := taproot.SecretKey(sk).Sign(&fixedReader{aux}, msg)
		t.Obs("evaluations", 2)
		t.Distinct("bip340-published-vector|%d", i)
		if err != nil || !bytes.Equal(got, sig) {
			t.Violation(fmt.Sprintf("taproot.Sign|published-vector-%d", i), "lib=%x want=%x err=%v", []byte(got), sig, err)
		}
		if !taproot.PublicKey(pk).Verify(taproot.Signature(sig), msg) {
			t.Violation(fmt.Sprintf("taproot.Verify|published-vector-%d", i), "published vector rejected")
		}
		gpk, _ := taproot.SecretKey(sk).Public()
		if !bytes.Equal(gpk, pk) {
			t.Violation(fmt.Sprintf("taproot.Public|published-vector-%d", i), "lib=%x want=%x", []byte(gpk), pk)
		}
	}
	// a 31-byte key whose zero-padded value is a key we know the secret of (x has a leading zero byte)
	r := t.Rng
	for tries := 0; tries < 3000; tries++ {
		d := randScalarBig(r)
		P := ref.MulG(d)
		px := P.XBytes()
		if px[0] != 0 {
			continue
		}
		if P.Y.Bit(0) == 1 {
			d.Sub(ref.Q, d)
		}
		pk31 := px[1:]
		msg := r.Bytes(32)
		k := randScalarBig(r)
		R := ref.MulG(k)
		if R.Y.Bit(0) == 1 {
			k.Sub(ref.Q, k)
		}
		e := new(big.Int).SetBytes(ref.TaggedHash("BIP0340/challenge", R.XBytes(), pk31, msg))
		e.Mod(e, ref.Q)
		s := new(big.Int).Mul(e, d)
		s.Add(s, k)
		s.Mod(s, ref.Q)
		sig := make([]byte, 64)
		copy(sig, R.XBytes())
		s.FillBytes(sig[32:])
		got := taproot.PublicKey(pk31).Verify(taproot.Signature(sig), msg)
		t.Obs("evaluations", 1)
		t.Distinct("bip340-verify|pk-31-bytes-crafted|ref=false")
		if got {
			t.Violation("taproot.Verify|pk-31-bytes|lib=true|ref=false", "31-byte key %x accepted, sig=%x msg=%x", pk31, sig, msg)
		}
		break
	}
	t.Sample(map[string]any{"primitive": "BIP-340 published vectors 0 and 1", "sk0": vs[0].sk})
}

func unhex(s string) []byte {
	b := make([]byte, len(s)/2)
	fmt.Sscanf(s, "%x", &b)
	return b
}

func c16Eth(t *vk.T, rounds int) {
	r := t.Rng
	for i := 0; i < rounds; i++ {
		d := randScalarBig(r)
		X := ref.MulG(d)
		dig := c16Digest(r, r.Intn(1000))
		k := randScalarBig(r)
		R, s := ref.ECDSASign(d, dig, k)
		if s.Sign() == 0 {
			continue
		}
		// exercise all four (s high/low) x (R.y odd/even) classes
		if r.Bool() {
			s = new(big.Int).Sub(ref.Q, s)
			R = R.Neg()
		}
		half := new(big.Int).Rsh(ref.Q, 1)
		high := s.Cmp(half) > 0
		sig := ecdsa.Signature{R: LibPoint(R), S: LibScalar(s)}
		if !sig.Verify(LibPoint(X), dig) {
			t.Violation("eth|precondition", "reference-made signature rejected before export")
			continue
		}
		var out []byte
		var err error
		if p, fr, txt := vk.Guard(func() { out, err = sig.SigEthereum() }); p {
			t.Violation("SigEthereum|panic|"+fr, "%s", txt)
			continue
		}
		t.Obs("evaluations", 1)
		t.Distinct("SigEthereum|s-high=%v|R-odd=%v", high, R.Y.Bit(0) == 1)
		if err != nil || len(out) != 65 {
			t.Violation("SigEthereum|length", "len=%d err=%v", len(out), err)
			continue
		}
		so := new(big.Int).SetBytes(out[32:64])
		if so.Cmp(half) > 0 {
			t.Violation("SigEthereum|high-s", "exported s=%x is above q/2", so)
		}
		rec, rerr := ref.ECRecover(dig, out)
		if rerr != nil || !rec.Equal(X) {
			t.Violation(fmt.Sprintf("SigEthereum|recovery|s-high=%v|R-odd=%v", high, R.Y.Bit(0) == 1), "recovered %v (%v), signing key %x; sig=%x digest=%x", rec, rerr, X.Compress(), out, dig)
		}
		// the original object must still verify, by the library and by the reference
		rp, perr := PtOf(sig.R)
		if perr != nil || !sig.Verify(LibPoint(X), dig) || !ref.ECDSAVerifyPoint(X, dig, rp, IntOf(sig.S)) {
			t.Violation(fmt.Sprintf("SigEthereum|original-invalidated|s-high=%v", high), "after SigEthereum the Signature object no longer verifies")
		}
		if i == 0 {
			t.Sample(map[string]any{"primitive": "SigEthereum", "digest_len": len(dig), "sig65": fmt.Sprintf("%x", out)})
		}
	}
}
