package checks

import (
	"errors"
	"fmt"
	"math/big"
	"os"
	"regexp"
	"sort"
	"strings"

	"github.com/taurusgroup/multi-party-sig/pkg/ecdsa"
	"github.com/taurusgroup/multi-party-sig/pkg/party"
	"github.com/taurusgroup/multi-party-sig/pkg/pool"
	"github.com/taurusgroup/multi-party-sig/pkg/protocol"
	"github.com/taurusgroup/multi-party-sig/protocols/cmp"
	"github.com/taurusgroup/multi-party-sig/protocols/cmp/presign"
	"github.com/taurusgroup/multi-party-sig/protocols/doerner"
	"github.com/taurusgroup/multi-party-sig/protocols/frost"
	"github.com/taurusgroup/multi-party-sig/verif/adv"
	"github.com/taurusgroup/multi-party-sig/verif/fx"
	"github.com/taurusgroup/multi-party-sig/verif/ref"
	"github.com/taurusgroup/multi-party-sig/verif/sim"
	"github.com/taurusgroup/multi-party-sig/verif/vk"
)

// camp is one protocol instance prepared for single-fault campaigns.
type camp struct {
	name    string
	ids     []party.ID
	two     bool
	leaders map[party.ID]bool
	mk      func() map[party.ID]protocol.StartFunc // fresh start functions (fresh copies of key material)
	// judge is the C03 oracle over the honest parties' outcomes; it reports through t.Violation with the given key prefix
	judge func(t *vk.T, honest []fx.Outcome, keyPrefix, tag string)
	cheap bool
	pl    *pool.Pool // nil for most instances; a small worker pool for some (task panics then cross goroutines)
}

func (c *camp) close() {
	if c != nil && c.pl != nil {
		c.pl.TearDown()
	}
}

// fault identifies one single deviation of the corrupted party.
type fault struct {
	round int
	bcast bool
	to    party.ID
	path  string
	mut   string
	mode  string // echo | wire | p2p | whole
}

func (f fault) String() string {
	k := "p2p"
	if f.bcast {
		k = "bcast"
	}
	return fmt.Sprintf("r%d/%s/%s/%s/%s", f.round, k, f.path, f.mut, f.mode)
}

func (f fault) class() string {
	k := "p2p"
	if f.bcast {
		k = "bcast"
	}
	return fmt.Sprintf("r%d|%s|%s|%s|%s", f.round, k, f.path, f.mut, f.mode)
}

type recMsg struct {
	round int
	bcast bool
	to    party.ID
	data  []byte
}

func (c *camp) start(t *vk.T, sid []byte, prep func(n *sim.Net)) (*sim.Net, error) {
	sf := c.mk()
	n := sim.New(t.Rng)
	for _, id := range c.ids {
		var h protocol.Handler
		var err error
		if c.two {
			h, err = protocol.NewTwoPartyHandler(sf[id], sid, c.leaders[id])
		} else {
			h, err = protocol.NewMultiHandler(sf[id], sid)
		}
		if err != nil {
			return nil, fmt.Errorf("start %q: %w", id, err)
		}
		n.Add(id, h, false)
	}
	if prep != nil {
		prep(n)
	}
	return n, nil
}

// record runs the session honestly and returns the corrupted party's messages.
func (c *camp) record(t *vk.T, P party.ID) ([]recMsg, error) {
	var out []recMsg
	n, err := c.start(t, t.Rng.Bytes(4), func(n *sim.Net) {
		n.OnEmit = func(_ *sim.Net, from *sim.Party, m *protocol.Message) bool {
			if from.ID == P && m.RoundNumber > 0 {
				out = append(out, recMsg{int(m.RoundNumber), m.Broadcast, m.To, append([]byte{}, m.Data...)})
			}
			return true
		}
	})
	if err != nil {
		return nil, err
	}
	n.Run()
	if !fx.AllDone(fx.Outcomes(n)) {
		return nil, fmt.Errorf("honest run incomplete: %s", fx.Describe(fx.Outcomes(n)))
	}
	return out, nil
}

// catalogue derives the fault list from the recorded messages.
func catalogue(msgs []recMsg, honestCount int) []fault {
	var fs []fault
	seen := map[string]bool{}
	for _, m := range msgs {
		root, err := adv.Decode(m.data)
		if err != nil {
			continue
		}
		modes := []string{"p2p"}
		if m.bcast {
			modes = []string{"echo", "wire"}
		} else if m.to == "" {
			modes = []string{"p2p", "wire"} // a "send to all" message: all copies, or one copy
		}
		for _, s := range adv.Sites(root, 3) {
			for _, name := range adv.TypedNames(adv.Get(root, s)) {
				for _, md := range modes {
					f := fault{m.round, m.bcast, m.to, s.Path, name, md}
					if !seen[f.String()+string(m.to)] {
						seen[f.String()+string(m.to)] = true
						fs = append(fs, f)
					}
				}
			}
		}
		// crafted deviations: values recomputed by the deviating party so that a weaker check would pass
		if !m.bcast && m.to != "" {
			if mm, ok := root.(map[interface{}]interface{}); ok {
				if b, ok := mm["F_li"].([]byte); ok && len(b) == 32 {
					fs = append(fs, fault{m.round, false, m.to, "/F_li", "crafted:own-polynomial-at-zero+empty-recipient", "p2p"})
					fs = append(fs, fault{m.round, false, m.to, "/F_li", "crafted:other-recipients-share", "p2p"})
				}
			}
		}
		// whole-message substitutions
		for _, w := range []string{"previous-round-data", "other-session-data", "other-kind-data", "readdressed-data", "empty-recipient-header"} {
			if w == "empty-recipient-header" && (m.bcast || m.to == "") {
				continue
			}
			if w == "readdressed-data" && (m.bcast || m.to == "") {
				continue
			}
			md := "p2p"
			if m.bcast {
				md = "echo"
			}
			fs = append(fs, fault{m.round, m.bcast, m.to, "*", w, md})
		}
	}
	return fs
}

type runResult struct {
	outs    []fx.Outcome
	net     *sim.Net
	applied bool
	aborts  map[party.ID][]party.ID // recipient -> senders of abort notices delivered to it
}

// runFault executes one session with exactly one deviation by P.
func (c *camp) runFault(t *vk.T, P party.ID, f fault, prev []recMsg) (*runResult, error) {
	r := t.Rng
	pool := adv.NewPool()
	res := &runResult{aborts: map[party.ID][]party.ID{}}
	var own []recMsg // P's messages of this run, before mutation
	var victim party.ID
	mutate := func(m *protocol.Message) bool {
		switch f.mut {
		case "previous-round-data", "other-kind-data", "readdressed-data":
			for _, o := range own {
				ok := false
				switch f.mut {
				case "previous-round-data":
					ok = o.round == f.round-1 && o.bcast == m.Broadcast
				case "other-kind-data":
					ok = o.round == f.round && o.bcast != m.Broadcast
				case "readdressed-data":
					ok = o.round == f.round && !o.bcast && o.to != m.To && o.to != ""
				}
				if ok {
					m.Data = append([]byte{}, o.data...)
					return true
				}
			}
			return false
		case "other-session-data":
			for _, o := range prev {
				if o.round == f.round && o.bcast == m.Broadcast && o.to == m.To {
					m.Data = append([]byte{}, o.data...)
					return true
				}
			}
			return false
		case "empty-recipient-header":
			m.To = ""
			return true
		case "crafted:own-polynomial-at-zero+empty-recipient", "crafted:other-recipients-share":
			// the deviating party knows its own polynomial: here it is interpolated from the shares it sends out
			var xs, ys []*big.Int
			var otherShare []byte
			for _, o := range own {
				if o.round != f.round || o.bcast || o.to == "" {
					continue
				}
				if t, err := adv.Decode(o.data); err == nil {
					if mm, ok := t.(map[interface{}]interface{}); ok {
						if b, ok := mm["F_li"].([]byte); ok {
							xs = append(xs, ref.IDScalar(string(o.to)))
							ys = append(ys, new(big.Int).SetBytes(b))
							if o.to != f.to {
								otherShare = b
							}
						}
					}
				}
			}
			root, err := adv.Decode(m.Data)
			mm, ok := root.(map[interface{}]interface{})
			if err != nil || !ok || len(xs) < 2 {
				return false
			}
			if f.mut == "crafted:other-recipients-share" {
				if otherShare == nil {
					return false
				}
				mm["F_li"] = otherShare
			} else {
				v := ref.InterpolateSecret(xs, ys) // f(0) for a degree-1 polynomial from two shares
				nb := make([]byte, 32)
				v.FillBytes(nb)
				mm["F_li"] = nb
				m.To = ""
			}
			b, err := adv.Encode(mm)
			if err != nil {
				return false
			}
			m.Data = b
			return true
		}
		root, err := adv.Decode(m.Data)
		if err != nil {
			return false
		}
		for _, s := range adv.Sites(root, 3) {
			if s.Path != f.path {
				continue
			}
			nv, ok := adv.ApplyTyped(adv.Get(root, s), f.mut, pool, r)
			if !ok {
				return false
			}
			b, err := adv.Encode(adv.With(root, s, nv, false))
			if err != nil {
				return false
			}
			m.Data = b
			return true
		}
		return false
	}
	n, err := c.start(t, r.Bytes(4), func(n *sim.Net) {
		k := r.Intn(4) // delivery order varies from run to run
		if campaignSched >= 0 {
			k = campaignSched
		}
		switch k {
		case 1:
			n.Sched = sim.SchedRandom
		case 2:
			n.Sched = sim.SchedReverse
		}
		n.OnEmit = func(_ *sim.Net, from *sim.Party, m *protocol.Message) bool {
			if tree, err := adv.Decode(m.Data); err == nil && m.RoundNumber > 0 {
				pool.AddTree(tree)
			}
			if from.ID != P || m.RoundNumber == 0 {
				return true
			}
			own = append(own, recMsg{int(m.RoundNumber), m.Broadcast, m.To, append([]byte{}, m.Data...)})
			if res.applied || int(m.RoundNumber) != f.round || m.Broadcast != f.bcast || m.To != f.to {
				return true
			}
			if f.mode == "echo" || f.mode == "p2p" {
				if f.mut == "empty-recipient-header" || strings.HasPrefix(f.mut, "crafted:") {
					// applied to the copy on the wire, which is still handed to the intended party only
					return true
				}
				res.applied = mutate(m)
			}
			return true
		}
		n.OnDeliver = func(_ *sim.Net, d *sim.Delivery) []*sim.Delivery {
			if d.Round == 0 {
				res.aborts[d.Target.ID] = append(res.aborts[d.Target.ID], d.From)
			}
			if d.From != P || d.Round != f.round || d.Bcast != f.bcast {
				return []*sim.Delivery{d}
			}
			if f.mode == "wire" || f.mut == "empty-recipient-header" || strings.HasPrefix(f.mut, "crafted:") {
				if f.mut != "empty-recipient-header" && !strings.HasPrefix(f.mut, "crafted:") {
					if victim == "" {
						victim = d.Target.ID
					}
					if d.Target.ID != victim {
						return []*sim.Delivery{d}
					}
				} else if d.To != f.to || res.applied {
					return []*sim.Delivery{d}
				}
				m := sim.Decode(d.Bytes)
				if mutate(m) {
					res.applied = true
					b, _ := m.MarshalBinary()
					c := *d
					c.Bytes = b
					c.Tag = "mutated:" + f.mut
					return []*sim.Delivery{&c}
				}
			}
			return []*sim.Delivery{d}
		}
	})
	if err != nil {
		return nil, err
	}
	n.Party(P).Corrupt = true
	var pnkErr error
	if p, fr, txt := vk.Guard(func() { n.Run() }); p {
		pnkErr = fmt.Errorf("panic in %s: %s", fr, txt)
	}
	res.net = n
	res.outs = fx.Outcomes(n)
	return res, pnkErr
}

func honestOf(outs []fx.Outcome, P party.ID) []fx.Outcome {
	var h []fx.Outcome
	for _, o := range outs {
		if o.ID != P {
			h = append(h, o)
		}
	}
	return h
}

// ---------- protocol instances ----------

func keygenJudge(proto string, expect *ref.Pt) func(t *vk.T, honest []fx.Outcome, keyPrefix, tag string) {
	return func(t *vk.T, honest []fx.Outcome, keyPrefix, tag string) {
		var shares []fx.Share
		var dk fx.DoernerKeys
		for _, o := range honest {
			if o.State != "done" {
				continue
			}
			switch c := o.Value.(type) {
			case *frost.Config:
				shares = append(shares, fx.ShareOfFrost(c))
			case *frost.TaprootConfig:
				shares = append(shares, fx.ShareOfTaproot(c))
			case *cmp.Config:
				shares = append(shares, fx.ShareOfCMP(c))
			case *doerner.ConfigReceiver:
				dk.R = c
			case *doerner.ConfigSender:
				dk.S = c
			}
		}
		if dk.R != nil || dk.S != nil {
			// a single honest Doerner party: its public key must still be the refreshed key's, its share non-zero
			var pub ref.Pt
			var err error
			if dk.R != nil {
				pub, err = fx.PtOf(dk.R.Public)
			} else {
				pub, err = fx.PtOf(dk.S.Public)
			}
			if err != nil || pub.Inf {
				t.Violation(keyPrefix+"|identity-or-invalid-public-key", "%s: an honest party finished with an unusable public key", tag)
			} else if expect != nil && !pub.Equal(*expect) {
				t.Violation(keyPrefix+"|group-key-changed", "%s: an honest party finished a refresh with another public key", tag)
			}
			return
		}
		if len(shares) == 0 {
			return
		}
		fails, _ := fx.CheckMaterialPartial(t.Rng, shares, expect, 12)
		for _, f := range fails {
			t.Violation(keyPrefix+"|"+f[0], "%s: honest finishers hold inconsistent material: %s", tag, f[1])
		}
	}
}

func signJudge(key ref.Pt, msg []byte) func(t *vk.T, honest []fx.Outcome, keyPrefix, tag string) {
	return func(t *vk.T, honest []fx.Outcome, keyPrefix, tag string) {
		var first []byte
		for _, o := range honest {
			if o.State != "done" {
				continue
			}
			if ps, ok := o.Value.(*ecdsa.PreSignature); ok {
				if err := ps.Validate(); err != nil {
					t.Violation(keyPrefix+"|invalid-presignature", "%s: honest party %q finished with a presignature failing its own Validate: %v", tag, o.ID, err)
				}
				b, _ := ps.R.MarshalBinary()
				if first == nil {
					first = b
				} else if string(first) != string(b) {
					t.Violation(keyPrefix+"|presignatures-differ", "%s: honest finishers hold presignatures with different R", tag)
				}
				continue
			}
			ok, kind, det := fx.VerifySig(o.Value, key, msg)
			if kind == "schnorr-library-only" {
				t.Inconclusive("%s", det)
			}
			if !ok {
				t.Violation(keyPrefix+"|invalid-signature|"+kind, "%s: honest party %q finished with a signature the independent verifier rejects: %s", tag, o.ID, det)
			}
			b := fx.SigBytes(o.Value)
			if first == nil {
				first = b
			} else if string(first) != string(b) {
				t.Violation(keyPrefix+"|signatures-differ", "%s: honest finishers returned different signatures", tag)
			}
		}
	}
}

// buildCamp prepares a protocol instance. n parties (Doerner: 2).
// campForcePool makes the next instances run with a worker pool (set and reset by the caller; one case at a time per child).
var campForcePool bool

func buildCamp(t *vk.T, name string, n int) *camp {
	r := t.Rng
	ids := fx.IDs(r, r.Intn(3), n)
	c := &camp{name: name, ids: ids, cheap: true}
	all := func(f func(id party.ID) protocol.StartFunc) func() map[party.ID]protocol.StartFunc {
		return func() map[party.ID]protocol.StartFunc {
			m := map[party.ID]protocol.StartFunc{}
			for _, id := range ids {
				m[id] = f(id)
			}
			return m
		}
	}
	th := 1
	var pl *pool.Pool
	if (strings.HasPrefix(name, "cmp-") || strings.HasPrefix(name, "doerner-")) && (r.Intn(3) == 0 || campForcePool) {
		pl = pool.NewPool(2)
		c.pl = pl
		t.Obs("instances_with_worker_pool", 1)
	}
	switch name {
	case "frost-keygen":
		c.mk = all(func(id party.ID) protocol.StartFunc { return frost.Keygen(group, id, ids, th) })
		c.judge = keygenJudge(name, nil)
	case "taproot-keygen":
		c.mk = all(func(id party.ID) protocol.StartFunc { return frost.KeygenTaproot(id, ids, th) })
		c.judge = keygenJudge(name, nil)
	case "frost-refresh", "frost-sign":
		fm, err := fx.NewFrostMat(r, ids, th, fx.Opt{})
		if err != nil {
			t.Inconclusive("keygen: %v", err)
			return nil
		}
		key := fm.Shares()[0].GroupKey
		if name == "frost-refresh" {
			c.mk = all(func(id party.ID) protocol.StartFunc { return frost.Refresh(fx.CloneFrost(fm.Cfgs[id]), ids) })
			c.judge = keygenJudge(name, &key)
		} else {
			msg := r.Bytes(32)
			c.mk = all(func(id party.ID) protocol.StartFunc { return frost.Sign(fx.CloneFrost(fm.Cfgs[id]), ids, msg) })
			c.judge = signJudge(key, msg)
		}
	case "taproot-refresh", "taproot-sign":
		tm, err := fx.NewTaprootMat(r, ids, th, fx.Opt{})
		if err != nil {
			t.Inconclusive("keygen: %v", err)
			return nil
		}
		key := tm.Shares()[0].GroupKey
		if name == "taproot-refresh" {
			c.mk = all(func(id party.ID) protocol.StartFunc { return frost.RefreshTaproot(fx.CloneTaproot(tm.Cfgs[id]), ids) })
			c.judge = keygenJudge(name, &key)
		} else {
			msg := r.Bytes(32)
			c.mk = all(func(id party.ID) protocol.StartFunc { return frost.SignTaproot(fx.CloneTaproot(tm.Cfgs[id]), ids, msg) })
			c.judge = signJudge(key, msg)
		}
	case "doerner-keygen":
		c.two = true
		c.ids = ids[:2]
		ids = c.ids
		c.leaders = map[party.ID]bool{ids[0]: true, ids[1]: false}
		c.mk = func() map[party.ID]protocol.StartFunc {
			return map[party.ID]protocol.StartFunc{ids[0]: doerner.Keygen(group, true, ids[0], ids[1], pl), ids[1]: doerner.Keygen(group, false, ids[1], ids[0], pl)}
		}
		c.judge = keygenJudge(name, nil)
	case "doerner-refresh", "doerner-sign":
		c.two = true
		c.ids = ids[:2]
		ids = c.ids
		dm, err := fx.NewDoernerMat(r, ids[0], ids[1], fx.Opt{})
		if err != nil {
			t.Inconclusive("keygen: %v", err)
			return nil
		}
		key := dm.Shares()[0].GroupKey
		if name == "doerner-refresh" {
			c.leaders = map[party.ID]bool{ids[0]: true, ids[1]: false}
			c.mk = func() map[party.ID]protocol.StartFunc {
				return map[party.ID]protocol.StartFunc{ids[0]: doerner.RefreshReceiver(dm.K.R, ids[0], ids[1], pl), ids[1]: doerner.RefreshSender(dm.K.S, ids[1], ids[0], pl)}
			}
			c.judge = keygenJudge(name, &key)
		} else {
			msg := r.Bytes(32)
			c.leaders = map[party.ID]bool{ids[0]: true, ids[1]: true}
			c.mk = func() map[party.ID]protocol.StartFunc {
				return map[party.ID]protocol.StartFunc{ids[0]: doerner.SignReceiver(dm.K.R, ids[0], ids[1], msg, pl), ids[1]: doerner.SignSender(dm.K.S, ids[1], ids[0], msg, pl)}
			}
			c.judge = signJudge(key, msg)
		}
	case "cmp-keygen":
		fx.InstallPrimeHook()
		fx.SetPrimeOffset(uint64(r.Intn(1000)))
		c.cheap = false
		c.mk = all(func(id party.ID) protocol.StartFunc { return cmp.Keygen(group, id, ids, th, pl) })
		c.judge = keygenJudge(name, nil)
	case "cmp-refresh", "cmp-sign", "cmp-presign-offline", "cmp-presign-full", "cmp-presign-online":
		fx.InstallPrimeHook()
		fx.SetPrimeOffset(uint64(r.Intn(1000)))
		c.cheap = false
		cm := fx.NewCMPMatDealt(ids, th)
		key := cm.Shares()[0].GroupKey
		msg := r.Bytes([]int{32, 32, 64, 48}[r.Intn(4)])
		switch name {
		case "cmp-refresh":
			c.mk = all(func(id party.ID) protocol.StartFunc { return cmp.Refresh(fx.CloneCMP(cm.Cfgs[id]), pl) })
			c.judge = keygenJudge(name, &key)
		case "cmp-sign":
			c.mk = all(func(id party.ID) protocol.StartFunc { return cmp.Sign(cm.Cfgs[id], ids, msg, pl) })
			c.judge = signJudge(key, msg)
		case "cmp-presign-offline":
			c.mk = all(func(id party.ID) protocol.StartFunc { return cmp.Presign(cm.Cfgs[id], ids, pl) })
			c.judge = signJudge(key, msg)
		case "cmp-presign-full":
			c.mk = all(func(id party.ID) protocol.StartFunc { return presign.StartPresign(cm.Cfgs[id], ids, msg, pl) })
			c.judge = signJudge(key, msg)
		case "cmp-presign-online":
			_, outs, err := fx.RunMulti(r, ids, func(id party.ID) protocol.StartFunc { return cmp.Presign(cm.Cfgs[id], ids, pl) }, fx.Opt{})
			if err != nil || !fx.AllDone(outs) {
				t.Inconclusive("presign failed")
				return nil
			}
			pre := map[party.ID]*ecdsa.PreSignature{}
			for _, o := range outs {
				pre[o.ID] = o.Value.(*ecdsa.PreSignature)
			}
			c.mk = all(func(id party.ID) protocol.StartFunc { return cmp.PresignOnline(cm.Cfgs[id], pre[id], msg, pl) })
			c.judge = signJudge(key, msg)
		}
	}
	return c
}

var cheapProtos = []string{"frost-keygen", "taproot-keygen", "frost-refresh", "taproot-refresh", "frost-sign", "taproot-sign", "doerner-keygen", "doerner-refresh", "doerner-sign"}
var cmpProtos = []string{"cmp-keygen", "cmp-refresh", "cmp-sign", "cmp-presign-offline", "cmp-presign-full", "cmp-presign-online"}

// culpritOracle is the C04 judgement of one honest party's terminal error.
func culpritOracle(t *vk.T, proto string, o fx.Outcome, P party.ID, res *runResult, f fault, tag string) {
	if o.State != "failed" || o.Err == nil {
		return
	}
	var pe protocol.Error
	if !errors.As(o.Err, &pe) {
		return // two-party handlers carry no culprit list
	}
	t.Obs("errors_with_culprit_lists_judged", 1)
	msg := pe.Err.Error()
	relay := strings.HasPrefix(msg, "aborted by other party")
	for _, cpt := range pe.Culprits {
		if cpt == o.ID {
			t.Violation(proto+"|honest-party-blames-itself|"+f.class(), "%s: honest party %q names itself as culprit: %s", tag, o.ID, truncStr(o.Err.Error(), 200))
			return
		}
	}
	if relay {
		if len(pe.Culprits) != 1 {
			t.Violation(proto+"|relayed-abort-without-single-origin", "%s: %q relays an abort with culprits %v", tag, o.ID, pe.Culprits)
			return
		}
		okSender := false
		for _, s := range res.aborts[o.ID] {
			if s == pe.Culprits[0] {
				okSender = true
			}
		}
		if !okSender {
			t.Violation(proto+"|relayed-abort-names-wrong-origin", "%s: %q reports an abort notice from %q, but notices reached it only from %v", tag, o.ID, pe.Culprits[0], res.aborts[o.ID])
		}
		return
	}
	for _, cpt := range pe.Culprits {
		if cpt != P {
			t.Violation(proto+"|honest-party-blamed|"+f.class(), "%s: honest party %q names the honest participant %q as culprit: %s", tag, o.ID, cpt, truncStr(o.Err.Error(), 200))
			return
		}
	}
	// attribution: a failure while decoding / verifying / storing a message names that message's sender
	if (strings.Contains(msg, "failed to unmarshal") || strings.HasPrefix(msg, "round ")) && len(pe.Culprits) == 0 {
		t.Violation(proto+"|verification-failure-not-attributed|"+f.class(), "%s: %q failed on a message (%s) without naming its sender", tag, o.ID, truncStr(msg, 120))
	}
}

// runCampaign drives the catalogue of one protocol instance; which = "C03" or "C04".
// campaignOnly restricts the next runCampaign to the faults whose description matches (one case at a time per child).
var campaignOnly string

// campaignSched forces the scheduler of the next fault runs (0 fifo, 1 random, 2 reverse; -1 seeded choice).
var campaignSched = -1

func runCampaign(t *vk.T, which, proto string, n, posIdx, budget, part, parts int) {
	c := buildCamp(t, proto, n)
	if c == nil {
		return
	}
	defer c.close()
	P := c.ids[posIdx%len(c.ids)]
	rec, err := c.record(t, P)
	if err != nil {
		t.Violation(proto+"|honest-run-failed", "the recording run failed: %v", err)
		return
	}
	faults := catalogue(rec, len(c.ids)-1)
	sort.Slice(faults, func(i, j int) bool { return faults[i].String() < faults[j].String() })
	t.Obs("catalogue_size|"+proto, int64(len(faults)))
	// this case's share of the catalogue, optionally sampled down to the budget (stratified by round and kind)
	var mine []fault
	for i, f := range faults {
		if i%parts == part {
			mine = append(mine, f)
		}
	}
	if campaignOnly != "" {
		// a case that runs one family of the catalogue completely (set and reset by the caller)
		rx := regexp.MustCompile(campaignOnly)
		mine = nil
		for _, f := range faults {
			if rx.MatchString(f.String()) {
				mine = append(mine, f)
			}
		}
		budget = 0
	}
	if re := os.Getenv("VERIF_FAULT_FILTER"); re != "" {
		// exploration aid (not used by any registered command): run every fault whose description matches, unsampled
		rx, err := regexp.Compile(re)
		if err != nil {
			t.Inconclusive("bad VERIF_FAULT_FILTER: %v", err)
			return
		}
		mine = nil
		for i, f := range faults {
			if i%parts == part && rx.MatchString(proto+" "+f.String()) {
				mine = append(mine, f)
			}
		}
		budget = 0
	}
	if budget > 0 && len(mine) > budget {
		perm := t.Rng.Perm(len(mine))
		var pick []fault
		seenStrata := map[string]bool{}
		for _, i := range perm { // one per (round, kind, mode) first
			k := fmt.Sprintf("%d/%v/%s", mine[i].round, mine[i].bcast, mine[i].mode)
			if !seenStrata[k] {
				seenStrata[k] = true
				pick = append(pick, mine[i])
			}
		}
		for _, i := range perm {
			if len(pick) >= budget {
				break
			}
			pick = append(pick, mine[i])
		}
		if len(pick) > budget {
			pick = pick[:budget]
		}
		mine = pick
	}
	for fi, f := range mine {
		res, perr := c.runFault(t, P, f, rec)
		if res == nil {
			t.Inconclusive("%s: could not start: %v", proto, perr)
			continue
		}
		t.Obs("evaluations", 1)
		tag := fmt.Sprintf("%s n=%d corrupted=%q (position %d) fault=%s", proto, len(c.ids), P, posIdx, f)
		if perr != nil {
			// a crash of an honest party is C05's business; here it only means "did not finish"
			t.Obs("runs_ending_in_a_panic", 1)
		}
		if !res.applied {
			t.Obs("faults_not_applicable", 1)
			continue
		}
		honest := honestOf(res.outs, P)
		nDone := 0
		for _, o := range honest {
			if o.State == "done" {
				nDone++
			}
		}
		t.Obs(fmt.Sprintf("honest_finishers=%d", nDone), 1)
		t.Distinct("%s|pos=%d|%s", proto, posIdx%len(c.ids), f.class())
		if which == "C03" {
			c.judge(t, honest, proto+"|wrong-result|"+f.class(), tag)
		} else {
			for _, o := range honest {
				culpritOracle(t, proto, o, P, res, f, tag)
			}
		}
		if fi == 0 && part == 0 {
			t.Sample(map[string]any{"protocol": proto, "corrupted": string(P), "fault": f.String(), "honest_outcomes": fx.Describe(honest)})
		}
	}
}
