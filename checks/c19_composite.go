package checks

import (
	"bytes"
	"fmt"

	"github.com/taurusgroup/multi-party-sig/internal/elgamal"
	"github.com/taurusgroup/multi-party-sig/pkg/hash"
	"github.com/taurusgroup/multi-party-sig/pkg/party"
	"github.com/taurusgroup/multi-party-sig/protocols/cmp/config"
	"github.com/taurusgroup/multi-party-sig/verif/fx"
	"github.com/taurusgroup/multi-party-sig/verif/vk"
)

// c19Composite: the nested writers that are records of several values (a party's public record, a whole CMP
// configuration, an ElGamal ciphertext).  Two records that differ in exactly one component that the writer covers
// are two different sequences of values: their digests must differ, and a commitment to one must not open to the
// other.  Components are exchanged for the same component of another party, so every variant is a well-formed
// record (nothing is refused for being malformed).
func c19Composite(t *vk.T, i int) {
	r := t.Rng
	fx.InstallPrimeHook()
	fx.SetPrimeOffset(uint64(r.Intn(1000)))
	ids := fx.IDs(r, i%4, 3)
	cfgs := fx.CMPDeal(ids, 1, nil)
	c0 := cfgs[ids[0]]
	digest := func(v interface{}) []byte {
		h := hash.New()
		if err := h.WriteAny(v); err != nil {
			return nil
		}
		return h.Sum()
	}
	judge := func(kind, comp string, a, b interface{}) {
		da, db := digest(a), digest(b)
		t.Obs("evaluations", 1)
		t.Distinct("composite|%s|%s", kind, comp)
		if da == nil || db == nil {
			t.Violation("composite|"+kind+"|"+comp+"|refused", "%s: a well-formed record was refused by the transcript hash", kind)
			return
		}
		if bytes.Equal(da, db) {
			t.Violation("hash|collision|composite|"+kind+"|"+comp, "two %s records that differ only in %s have the same digest %x", kind, comp, da[:8])
			return
		}
		ctx := hash.New(hash.BytesWithDomain{TheDomain: "ctx", Bytes: r.Bytes(8)})
		cm, dc, err := ctx.Commit(a)
		if err != nil {
			return
		}
		if !ctx.Decommit(cm, dc, a) {
			t.Violation("commit|honest-opening-refused|composite|"+kind, "Decommit refused the very %s record committed to", kind)
		}
		if ctx.Decommit(cm, dc, b) {
			t.Violation("commit|opens-to-other-tuple|composite|"+kind+"|"+comp, "a commitment to a %s record opens to a record with another %s", kind, comp)
		}
	}
	// a party's public record, one component taken from another party
	p, q := c0.Public[ids[0]], c0.Public[ids[1]]
	pubVariants := func(p, q *config.Public) map[string]*config.Public {
		return map[string]*config.Public{
			"ECDSA":           {ECDSA: q.ECDSA, ElGamal: p.ElGamal, Paillier: p.Paillier, Pedersen: p.Pedersen},
			"ElGamal":         {ECDSA: p.ECDSA, ElGamal: q.ElGamal, Paillier: p.Paillier, Pedersen: p.Pedersen},
			"Paillier":        {ECDSA: p.ECDSA, ElGamal: p.ElGamal, Paillier: q.Paillier, Pedersen: p.Pedersen},
			"Pedersen":        {ECDSA: p.ECDSA, ElGamal: p.ElGamal, Paillier: p.Paillier, Pedersen: q.Pedersen},
			"ECDSA<->ElGamal": {ECDSA: p.ElGamal, ElGamal: p.ECDSA, Paillier: p.Paillier, Pedersen: p.Pedersen},
		}
	}
	for comp, v := range pubVariants(p, q) {
		judge("public-record", comp, p, v)
	}
	// the whole configuration: one component of one party's record, the threshold, the rid, the party set
	withPublic := func(id party.ID, rec *config.Public) *config.Config {
		c := *c0
		c.Public = map[party.ID]*config.Public{}
		for k, v := range c0.Public {
			c.Public[k] = v
		}
		c.Public[id] = rec
		return &c
	}
	for k, id := range ids {
		other := ids[(k+1)%len(ids)]
		for comp, v := range pubVariants(c0.Public[id], c0.Public[other]) {
			judge("config", fmt.Sprintf("party%d.%s", k, comp), c0, withPublic(id, v))
		}
	}
	{
		c := *c0
		c.Threshold = c0.Threshold + 1
		judge("config", "threshold", c0, &c)
		c2 := *c0
		c2.RID = append([]byte{}, c0.RID...)
		c2.RID[r.Intn(len(c2.RID))] ^= 1 << uint(r.Intn(8))
		judge("config", "rid", c0, &c2)
		c3 := *c0
		c3.Public = map[party.ID]*config.Public{}
		for k, v := range c0.Public {
			c3.Public[k] = v
		}
		moved := party.ID(string(ids[2]) + "'")
		c3.Public[moved] = c3.Public[ids[2]]
		delete(c3.Public, ids[2])
		judge("config", "party-renamed", c0, &c3)
	}
	// ElGamal ciphertext: each half exchanged, halves swapped
	{
		a, _ := elgamal.Encrypt(p.ElGamal, LibScalar(randScalarBig(r)))
		b, _ := elgamal.Encrypt(p.ElGamal, LibScalar(randScalarBig(r)))
		judge("elgamal-ciphertext", "L", a, &elgamal.Ciphertext{L: b.L, M: a.M})
		judge("elgamal-ciphertext", "M", a, &elgamal.Ciphertext{L: a.L, M: b.M})
		judge("elgamal-ciphertext", "L<->M", a, &elgamal.Ciphertext{L: a.M, M: a.L})
	}
}
