package checks

import (
	"bytes"
	"crypto/sha256"
	"fmt"
	"sort"

	"github.com/taurusgroup/multi-party-sig/pkg/party"
	"github.com/taurusgroup/multi-party-sig/pkg/protocol"
	"github.com/taurusgroup/multi-party-sig/protocols/cmp"
	"github.com/taurusgroup/multi-party-sig/protocols/doerner"
	"github.com/taurusgroup/multi-party-sig/protocols/frost"
	"github.com/taurusgroup/multi-party-sig/verif/detproto"
	"github.com/taurusgroup/multi-party-sig/verif/fx"
	"github.com/taurusgroup/multi-party-sig/verif/sim"
	"github.com/taurusgroup/multi-party-sig/verif/vk"
)

func init() {
	vk.Register(&vk.Check{
		ID:    "C07",
		Level: "exploration",
		Rule: "(a) exhaustive: every causally permitted interleaving of message deliveries of a deterministic 4-round protocol (broadcast+p2p, broadcast-only, p2p-only rounds) run by the real MultiHandler, enumerated by stateless DFS with a sleep-set reduction (deliveries to different recipients commute), for n=2 over all rounds (complete) and n=3 over rounds 2-3 and 2-4 (budgeted per sub-tree; exhaustive_subruns_completed / _incomplete say which sub-trees were enumerated completely), plus one duplicate at every later position of every n=2 interleaving; (b) sampled: real protocols under random / reverse / starve schedulers with duplication, stale replays, foreign-session injections (messages and abort notices) and point-to-point messages overheard by a third party first (shared medium), with party-keyed deterministic randomness: bit-identical results are required whenever a party's draw sequence equals that of the in-order run, correct and agreed results otherwise; " +
			"distinct non-trivial = distinct per-recipient delivery orders (exhaustive part) + distinct (protocol, scheduler, injection kinds, order hash) schedules (sampled part)",
		MinDistinct:  100,
		Assumptions:  []string{"sleep-set reduction assumes handlers of different parties share no state (each party owns its objects; messages are serialised)", "exhaustive: true only when every DFS sub-tree of the run completed"},
		Cases:        c07Cases,
		CaseTimeoutS: 3600,
	})
}

// ---------- (a) exhaustive DFS on detproto ----------

type dkey struct {
	s  string
	to party.ID
}

func keyOf(d *sim.Delivery) dkey {
	return dkey{fmt.Sprintf("%s>%s/r%d/b%v", d.From, d.To, d.Round, d.Bcast), d.To}
}

type dfs struct {
	t        *vk.T
	ids      []party.ID
	seed     []byte
	maxRound int
	want     map[party.ID][]byte // in-order result digest per party
	leaves   int64
	budget   int64
	orders   map[string]bool
	aborted  bool
	dups     bool
	fixed    []dkey // forced prefix
	skip     bool   // the variant with a silent round 3
}

func (x *dfs) fresh() *sim.Net {
	n := sim.New(vk.NewRand(1))
	n.KeepLog = false
	for _, id := range x.ids {
		sf := detproto.Start(id, x.ids, x.seed)
		if x.skip {
			sf = detproto.StartSkip(id, x.ids, x.seed)
		}
		h, err := protocol.NewMultiHandler(sf, []byte("c07"))
		if err != nil {
			panic(err)
		}
		n.Add(id, h, false)
	}
	n.DrainAll()
	return n
}

func deliverKey(n *sim.Net, k dkey) bool {
	for i, d := range n.Pending {
		if keyOf(d) == k {
			n.Pending = append(n.Pending[:i], n.Pending[i+1:]...)
			n.Deliver(d)
			return true
		}
	}
	return false
}

func (x *dfs) replay(prefix []dkey) *sim.Net {
	n := x.fresh()
	for _, k := range prefix {
		if !deliverKey(n, k) {
			panic("c07: replay diverged (non-deterministic protocol?) at " + k.s)
		}
	}
	return n
}

func (x *dfs) enabled(n *sim.Net) []dkey {
	var ks []dkey
	for _, d := range n.Pending {
		if d.Round <= x.maxRound {
			ks = append(ks, keyOf(d))
		}
	}
	sort.Slice(ks, func(i, j int) bool { return ks[i].s < ks[j].s })
	return ks
}

// finish completes a run FIFO and checks it.
func (x *dfs) leaf(prefix []dkey, n *sim.Net) {
	x.leaves++
	n.Run()
	x.check(prefix, n, "interleaving")
	// per-recipient order signature
	per := map[party.ID]string{}
	for _, k := range prefix {
		per[k.to] += k.s + ";"
	}
	for id, s := range per {
		h := sha256.Sum256([]byte(string(id) + "|" + s))
		x.orders[fmt.Sprintf("%x", h[:8])] = true
	}
	if x.dups {
		for i := 0; i < len(prefix); i++ {
			for j := i + 1; j <= len(prefix); j++ {
				m := x.fresh()
				var saved *sim.Delivery
				okRun := true
				for p := 0; p <= len(prefix); p++ {
					if p == j && saved != nil {
						dup := *saved
						dup.Tag = "dup"
						m.Deliver(&dup)
					}
					if p == len(prefix) {
						break
					}
					if p == i {
						for _, d := range m.Pending {
							if keyOf(d) == prefix[p] {
								c := *d
								saved = &c
							}
						}
					}
					if !deliverKey(m, prefix[p]) {
						okRun = false
						break
					}
				}
				if !okRun {
					continue
				}
				m.Run()
				x.t.Obs("duplicate_runs", 1)
				x.check(prefix, m, fmt.Sprintf("duplicate of delivery %d re-delivered at position %d", i, j))
			}
		}
	}
}

func (x *dfs) check(prefix []dkey, n *sim.Net, what string) {
	x.t.Obs("evaluations", 1)
	for _, p := range n.Parties {
		v, err := p.H.Result()
		res, ok := v.(*detproto.Result)
		switch {
		case err != nil || !ok:
			x.t.Violation("detproto|schedule-breaks-completion|n="+fmt.Sprint(len(x.ids)), "%s %v: party %q did not complete: %v (state %s)", what, keys(prefix), p.ID, err, sim.State(p.H))
			return
		case !bytes.Equal(res.Digest, x.want[p.ID]):
			x.t.Violation("detproto|schedule-changes-result|n="+fmt.Sprint(len(x.ids)), "%s %v: party %q finished with a result different from the in-order run", what, keys(prefix), p.ID)
			return
		case res.OrderViolations != 0:
			x.t.Violation("detproto|p2p-verified-before-broadcast|n="+fmt.Sprint(len(x.ids)), "%s %v: party %q verified a p2p message before its sender's broadcast was stored", what, keys(prefix), p.ID)
			return
		}
	}
}

func keys(p []dkey) []string {
	out := make([]string, len(p))
	for i, k := range p {
		out[i] = k.s
	}
	return out
}

func (x *dfs) explore(prefix []dkey, live *sim.Net, sleep []dkey) {
	if x.aborted {
		return
	}
	en := x.enabled(live)
	if len(en) == 0 {
		x.leaf(prefix, live)
		if x.budget > 0 && x.leaves >= x.budget {
			x.aborted = true
		}
		return
	}
	var done []dkey
	first := true
	inSleep := func(k dkey) bool {
		for _, s := range sleep {
			if s == k {
				return true
			}
		}
		return false
	}
	for _, d := range en {
		if inSleep(d) {
			continue
		}
		var n *sim.Net
		if first {
			n = live
			first = false
		} else {
			n = x.replay(prefix)
		}
		deliverKey(n, d)
		var ns []dkey
		for _, s := range append(append([]dkey{}, sleep...), done...) {
			if s.to != d.to {
				ns = append(ns, s)
			}
		}
		x.explore(append(append([]dkey{}, prefix...), d), n, ns)
		done = append(done, d)
		if x.aborted {
			return
		}
	}
}

func c07InOrder(ids []party.ID, seed []byte, skip bool) map[party.ID][]byte {
	x := &dfs{ids: ids, seed: seed, skip: skip}
	n := x.fresh()
	n.Run()
	out := map[party.ID][]byte{}
	for _, p := range n.Parties {
		v, _ := p.H.Result()
		r, ok := v.(*detproto.Result)
		if !ok {
			return nil
		}
		out[p.ID] = r.Digest
	}
	return out
}

// c07DFS explores the sub-tree below a forced first delivery (index `branch` of the initially enabled set).
func c07DFS(t *vk.T, n, maxRound, branch int, dups bool, budget int64) {
	c07DFSx(t, n, maxRound, branch, dups, budget, false)
}

func c07DFSx(t *vk.T, n, maxRound, branch int, dups bool, budget int64, skip bool) {
	ids := []party.ID{"a", "b", "c", "d"}[:n]
	seed := []byte{byte(n), byte(maxRound)}
	x := &dfs{t: t, ids: ids, seed: seed, maxRound: maxRound, orders: map[string]bool{}, dups: dups, budget: budget, skip: skip}
	x.want = c07InOrder(ids, seed, skip)
	if x.want == nil {
		t.Violation("detproto|in-order-run-failed", "the in-order run of the deterministic protocol did not complete (n=%d)", n)
		return
	}
	root := x.fresh()
	en := x.enabled(root)
	if branch >= len(en) {
		return
	}
	// sleep set of this sub-tree: the earlier siblings that commute with our first delivery
	var sleep []dkey
	for _, s := range en[:branch] {
		if s.to != en[branch].to {
			sleep = append(sleep, s)
		}
	}
	deliverKey(root, en[branch])
	x.explore([]dkey{en[branch]}, root, sleep)
	t.Obs("dfs_leaves", x.leaves)
	if x.aborted {
		t.Obs("exhaustive_subruns_incomplete", 1)
	} else {
		t.Obs("exhaustive_subruns_completed", 1)
	}
	for o := range x.orders {
		t.Distinct("detproto|n=%d|recipient-order|%s", n, o)
	}
	if branch == 0 {
		t.Sample(map[string]any{"kind": "exhaustive DFS", "n": n, "explored_rounds": fmt.Sprintf("2..%d", maxRound), "first_delivery": en[0].s, "leaves_in_this_subtree": x.leaves, "completed": !x.aborted, "duplicates": dups})
	}
}

// ---------- (b) sampled schedules on the real protocols ----------

type c07Scenario struct {
	name    string
	two     bool
	ids     []party.ID
	start   func(id party.ID) protocol.StartFunc
	leaders [2]bool
	// canon returns canonical bytes of a party's result and whether it is correct
	canon func(v interface{}) []byte
	judge func(t *vk.T, outs []fx.Outcome, tag string)
}

func c07Run(t *vk.T, sc *c07Scenario, kr *fx.KeyedRand, sched func(*sim.Net) int, sid []byte, inject func(n *sim.Net)) ([]fx.Outcome, *sim.Net) {
	opt := fx.Opt{Sched: sched, SessionID: sid, Current: kr.Current, NoRun: true}
	var n *sim.Net
	if sc.two {
		n, _, _ = fx.RunTwo(t.Rng, sc.ids[0], sc.ids[1], sc.start(sc.ids[0]), sc.start(sc.ids[1]), sc.leaders[0], sc.leaders[1], opt)
	} else {
		n, _, _ = fx.RunMulti(t.Rng, sc.ids, sc.start, opt)
	}
	if len(n.Parties) != len(sc.ids) {
		return nil, n
	}
	if inject != nil {
		inject(n)
	}
	n.Run()
	return fx.Outcomes(n), n
}

func c07Sampled(t *vk.T, proto string, i int, reps int) {
	r := t.Rng
	var mk func() *c07Scenario // builds a scenario with fresh copies of the key material
	switch proto {
	case "frost-keygen", "taproot-keygen":
		n := 2 + r.Intn(4)
		th := r.Intn(n)
		ids := fx.IDs(r, i%4, n)
		mk = func() *c07Scenario {
			sc := &c07Scenario{name: proto, ids: ids}
			if proto == "frost-keygen" {
				sc.start = func(id party.ID) protocol.StartFunc { return frost.Keygen(group, id, ids, th) }
				sc.canon = func(v interface{}) []byte {
					c, ok := v.(*frost.Config)
					if !ok {
						return nil
					}
					s := fx.ShareOfFrost(c)
					return append(append(s.Secret.Bytes(), s.GroupKey.Compress()...), s.ChainKey...)
				}
			} else {
				sc.start = func(id party.ID) protocol.StartFunc { return frost.KeygenTaproot(id, ids, th) }
				sc.canon = func(v interface{}) []byte {
					c, ok := v.(*frost.TaprootConfig)
					if !ok {
						return nil
					}
					s := fx.ShareOfTaproot(c)
					return append(append(s.Secret.Bytes(), s.GroupKey.Compress()...), s.ChainKey...)
				}
			}
			sc.judge = func(t *vk.T, outs []fx.Outcome, tag string) {
				var shares []fx.Share
				for _, o := range outs {
					switch c := o.Value.(type) {
					case *frost.Config:
						shares = append(shares, fx.ShareOfFrost(c))
					case *frost.TaprootConfig:
						shares = append(shares, fx.ShareOfTaproot(c))
					}
				}
				if len(shares) == len(outs) {
					if f, _ := fx.CheckMaterial(t.Rng, shares, nil, 10); len(f) > 0 {
						t.Violation(proto+"|schedule-breaks-result|"+f[0][0], "%s: %s", tag, f[0][1])
					}
				}
			}
			return sc
		}
	case "frost-sign", "taproot-sign":
		n := 2 + r.Intn(4)
		th := r.Intn(n)
		ids := fx.IDs(r, i%4, n)
		msg := r.Bytes(32)
		var fm *fx.FrostMat
		var tm *fx.TaprootMat
		var err error
		if proto == "frost-sign" {
			fm, err = fx.NewFrostMat(r, ids, th, fx.Opt{})
		} else {
			tm, err = fx.NewTaprootMat(r, ids, th, fx.Opt{})
		}
		if err != nil {
			t.Inconclusive("keygen: %v", err)
			return
		}
		mk = func() *c07Scenario {
			sc := &c07Scenario{name: proto, ids: ids, canon: func(v interface{}) []byte { return fx.SigBytes(v) }}
			var key = func() fx.Share {
				if fm != nil {
					return fm.Shares()[0]
				}
				return tm.Shares()[0]
			}()
			if fm != nil {
				snap, _ := fm.Snapshot()
				sc.start = func(id party.ID) protocol.StartFunc { return frost.Sign(snap.(*fx.FrostMat).Cfgs[id], ids, msg) }
			} else {
				snap, _ := tm.Snapshot()
				sc.start = func(id party.ID) protocol.StartFunc { return frost.SignTaproot(snap.(*fx.TaprootMat).Cfgs[id], ids, msg) }
			}
			sc.judge = func(t *vk.T, outs []fx.Outcome, tag string) { judge(t, proto, outs, key.GroupKey, msg, tag, true) }
			return sc
		}
	case "detstream":
		// a two-party protocol whose leader sends two rounds back to back (TwoPartyHandler with early arrival)
		ids := fx.IDs(r, i%4, 2)
		seed := r.Bytes(4)
		mk = func() *c07Scenario {
			sc := &c07Scenario{name: proto, two: true, ids: ids, leaders: [2]bool{true, false}}
			sc.start = func(id party.ID) protocol.StartFunc {
				if id == ids[0] {
					return detproto.StartStream(ids[0], ids[1], true, seed)
				}
				return detproto.StartStream(ids[1], ids[0], false, seed)
			}
			sc.canon = func(v interface{}) []byte {
				if res, ok := v.(*detproto.Result); ok && res != nil {
					return res.Digest
				}
				return nil
			}
			sc.judge = func(t *vk.T, outs []fx.Outcome, tag string) {}
			return sc
		}
	case "doerner-keygen":
		ids := fx.IDs(r, i%4, 2)
		mk = func() *c07Scenario {
			sc := &c07Scenario{name: proto, two: true, ids: ids, leaders: [2]bool{true, false}}
			sc.start = func(id party.ID) protocol.StartFunc {
				if id == ids[0] {
					return doerner.Keygen(group, true, ids[0], ids[1], nil)
				}
				return doerner.Keygen(group, false, ids[1], ids[0], nil)
			}
			sc.canon = func(v interface{}) []byte {
				switch c := v.(type) {
				case *doerner.ConfigReceiver:
					b, _ := c.Public.MarshalBinary()
					return append(IntOf(c.SecretShare).Bytes(), b...)
				case *doerner.ConfigSender:
					b, _ := c.Public.MarshalBinary()
					return append(IntOf(c.SecretShare).Bytes(), b...)
				}
				return nil
			}
			sc.judge = func(t *vk.T, outs []fx.Outcome, tag string) {
				k := &fx.DoernerKeys{RID: ids[0], SID: ids[1]}
				for _, o := range outs {
					switch c := o.Value.(type) {
					case *doerner.ConfigReceiver:
						k.R = c
					case *doerner.ConfigSender:
						k.S = c
					}
				}
				if k.R != nil && k.S != nil {
					if f, _ := fx.CheckMaterial(t.Rng, fx.SharesOfDoerner(k), nil, 1); len(f) > 0 {
						t.Violation(proto+"|schedule-breaks-result|"+f[0][0], "%s: %s", tag, f[0][1])
					}
				}
			}
			return sc
		}
	case "doerner-sign":
		ids := fx.IDs(r, i%4, 2)
		dm, err := fx.NewDoernerMat(r, ids[0], ids[1], fx.Opt{})
		if err != nil {
			t.Inconclusive("keygen: %v", err)
			return
		}
		msg := r.Bytes(32)
		key := dm.Shares()[0].GroupKey
		mk = func() *c07Scenario {
			sc := &c07Scenario{name: proto, two: true, ids: ids, leaders: [2]bool{true, true}, canon: func(v interface{}) []byte { return fx.SigBytes(v) }}
			sc.start = func(id party.ID) protocol.StartFunc {
				if id == ids[0] {
					return doerner.SignReceiver(dm.K.R, ids[0], ids[1], msg, nil)
				}
				return doerner.SignSender(dm.K.S, ids[1], ids[0], msg, nil)
			}
			sc.judge = func(t *vk.T, outs []fx.Outcome, tag string) { judge(t, proto, outs, key, msg, tag, true) }
			return sc
		}
	case "cmp-sign":
		fx.InstallPrimeHook()
		fx.SetPrimeOffset(uint64(r.Intn(1000)))
		ids := fx.IDs(r, i%4, 3)
		cm := fx.NewCMPMatDealt(ids, 1)
		msg := r.Bytes(32)
		key := cm.Shares()[0].GroupKey
		S := []party.ID{ids[0], ids[2]}
		if i%2 == 1 {
			S = ids
		}
		mk = func() *c07Scenario {
			sc := &c07Scenario{name: proto, ids: S, canon: func(v interface{}) []byte { return fx.SigBytes(v) }}
			sc.start = func(id party.ID) protocol.StartFunc { return cmp.Sign(cm.Cfgs[id], S, msg, nil) }
			sc.judge = func(t *vk.T, outs []fx.Outcome, tag string) { judge(t, proto, outs, key, msg, tag, true) }
			return sc
		}
	}
	krSeed := r.U64()
	sid := r.Bytes(6)
	// baseline: in-order
	kr := fx.NewKeyedRand(krSeed)
	kr.Install()
	base, bn := c07Run(t, mk(), kr, sim.SchedFIFO, sid, nil)
	kr.Uninstall()
	if base == nil || !fx.AllDone(base) {
		t.Violation(proto+"|in-order-run-failed", "the in-order run did not complete: %s", fx.Describe(base))
		return
	}
	baseDraw := kr.DrawSig()
	sc0 := mk()
	sc0.judge(t, base, proto+" in-order")
	baseCanon := map[party.ID][]byte{}
	for _, o := range base {
		baseCanon[o.ID] = sc0.canon(o.Value)
	}
	_ = bn
	for rep := 0; rep < reps; rep++ {
		sc := mk()
		schedName, sched := pickSched(r, sc.ids)
		if rep%4 == 1 {
			schedName, sched = "reverse", sim.SchedReverse
		}
		dupP, staleP, foreignP := 30, 15, 10
		var seen []*sim.Delivery
		kinds := map[string]bool{}
		kr := fx.NewKeyedRand(krSeed)
		kr.Install()
		inject := func(n *sim.Net) {
			// a parallel session with another session id supplies the foreign messages
			fsc := mk()
			kf := fx.NewKeyedRand(krSeed + 7)
			var captured, aborts []*sim.Delivery
			func() {
				kr.Uninstall()
				kf.Install()
				defer func() { kf.Uninstall(); kr.Install() }()
				opt := fx.Opt{SessionID: append([]byte("foreign-"), sid...), Current: kf.Current, NoRun: true}
				var fnet *sim.Net
				if fsc.two {
					fnet, _, _ = fx.RunTwo(t.Rng, fsc.ids[0], fsc.ids[1], fsc.start(fsc.ids[0]), fsc.start(fsc.ids[1]), fsc.leaders[0], fsc.leaders[1], opt)
				} else {
					fnet, _, _ = fx.RunMulti(t.Rng, fsc.ids, fsc.start, opt)
				}
				if fnet != nil && len(fnet.Parties) == len(fsc.ids) {
					fnet.OnDeliver = func(_ *sim.Net, d *sim.Delivery) []*sim.Delivery {
						c := *d
						captured = append(captured, &c)
						return []*sim.Delivery{d}
					}
					fnet.Run()
				}
				// a third session (yet another session id) is stopped by its user: its abort notices are foreign too
				asc := mk()
				opt.SessionID = append([]byte("foreign-stopped-"), sid...)
				var anet *sim.Net
				if asc.two {
					anet, _, _ = fx.RunTwo(t.Rng, asc.ids[0], asc.ids[1], asc.start(asc.ids[0]), asc.start(asc.ids[1]), asc.leaders[0], asc.leaders[1], opt)
				} else {
					anet, _, _ = fx.RunMulti(t.Rng, asc.ids, asc.start, opt)
				}
				if anet != nil && len(anet.Parties) == len(asc.ids) {
					anet.OnDeliver = func(_ *sim.Net, d *sim.Delivery) []*sim.Delivery {
						if d.Round == 0 {
							c := *d
							aborts = append(aborts, &c)
						}
						return []*sim.Delivery{d}
					}
					anet.Parties[r.Intn(len(anet.Parties))].H.Stop()
					anet.Run()
				}
			}()
			n.OnDeliver = func(n *sim.Net, d *sim.Delivery) []*sim.Delivery {
				out := []*sim.Delivery{d}
				if d.Tag == "" {
					seen = append(seen, d)
					if r.Intn(100) < dupP {
						c := *d
						c.Tag = "dup"
						out = append(out, &c)
						kinds["dup"] = true
						t.Obs("injected_duplicates", 1)
					}
					if r.Intn(100) < staleP && len(seen) > 2 {
						c := *seen[r.Intn(len(seen)/2+1)]
						c.Tag = "stale"
						out = append(out, &c)
						kinds["stale"] = true
						t.Obs("injected_stale", 1)
					}
					// shared medium: a point-to-point message meant for one party is also shown to another, first
					if !d.Bcast && d.To != "" && len(n.Parties) > 2 && r.Intn(100) < 25 {
						var others []*sim.Party
						for _, q := range n.Parties {
							if q.ID != d.To && q.ID != d.From {
								others = append(others, q)
							}
						}
						if len(others) > 0 {
							c := *d
							c.Tag = "overheard"
							c.Target = others[r.Intn(len(others))]
							out = append([]*sim.Delivery{&c}, out...)
							kinds["overheard"] = true
							t.Obs("injected_overheard_p2p", 1)
						}
					}
					if r.Intn(100) < foreignP && len(aborts) > 0 {
						c := *aborts[r.Intn(len(aborts))]
						c.Tag = "foreign-abort"
						c.Target = nil
						out = append(out, &c)
						kinds["foreign-abort"] = true
						t.Obs("injected_foreign_abort_notices", 1)
					}
					if r.Intn(100) < foreignP && len(captured) > 0 {
						c := *captured[r.Intn(len(captured))]
						c.Tag = "foreign"
						c.Target = nil // resolved by recipient id in this network
						if r.Bool() {
							out = append([]*sim.Delivery{&c}, out...)
						} else {
							out = append(out, &c)
						}
						kinds["foreign"] = true
						t.Obs("injected_foreign", 1)
					}
				}
				return out
			}
		}
		outs, n := c07Run(t, sc, kr, sched, sid, inject)
		kr.Uninstall()
		t.Obs("evaluations", 1)
		t.Obs("schedules|"+schedName, 1)
		tag := fmt.Sprintf("%s ids=%q sched=%s order=%s", proto, sc.ids, schedName, n.OrderHash())
		if outs == nil {
			t.Violation(proto+"|start-failed", "%s", tag)
			continue
		}
		if !fx.AllDone(outs) {
			t.Violation(proto+"|schedule-breaks-completion|"+schedName, "%s: a schedule delivering every message at least once left parties unfinished or failed: %s", tag, fx.Describe(outs))
			continue
		}
		sc.judge(t, outs, tag)
		draw := kr.DrawSig()
		for _, o := range outs {
			if draw[o.ID] == baseDraw[o.ID] {
				t.Obs("draw_sequence_matches", 1)
				if !bytes.Equal(sc.canon(o.Value), baseCanon[o.ID]) {
					t.Violation(proto+"|schedule-changes-result|"+schedName, "%s: party %q drew the same randomness as in the in-order run but finished with a different result", tag, o.ID)
				}
			} else {
				t.Obs("draw_sequence_differs", 1)
			}
		}
		ks := ""
		for k := range kinds {
			ks += k + "+"
		}
		t.Distinct("%s|%s|%s|%s", proto, schedName, ks, n.OrderHash())
		if rep == 0 && i == 0 {
			t.Sample(map[string]any{"kind": "sampled schedule", "protocol": proto, "scheduler": schedName, "injections": ks, "deliveries": n.Steps, "order": n.OrderHash()})
		}
	}
}

func c07Cases(env vk.Env) []vk.Case {
	var cs []vk.Case
	// n=2, all rounds, complete, with duplicates: split by first delivery
	for b := 0; b < 4; b++ {
		b := b
		cs = append(cs, vk.Case{ID: fmt.Sprintf("dfs/n2/r2-4/branch%d", b), Run: func(t *vk.T) { c07DFS(t, 2, 4, b, true, 0) }})
	}
	// n=3, rounds 2-3: budgeted per sub-tree (the complete space needs hours per sub-tree: measured 2026-09-26, more than 40 min each for 10 of 12)
	for b := 0; b < 12; b++ {
		b := b
		budget := int64(env.Pick(1500, 25000))
		cs = append(cs, vk.Case{ID: fmt.Sprintf("dfs/n3/r2-3/branch%d", b), Run: func(t *vk.T) { c07DFS(t, 3, 3, b, false, budget) }})
	}
	// the variant with a silent round 3 (messages can arrive two rounds early): n=2 complete, n=3 budgeted
	for b := 0; b < 4; b++ {
		b := b
		cs = append(cs, vk.Case{ID: fmt.Sprintf("dfs-silent-round/n2/branch%d", b), Run: func(t *vk.T) { c07DFSx(t, 2, 4, b, true, 0, true) }})
	}
	for b := 0; b < 12; b++ {
		b := b
		budget := int64(env.Pick(300, 10000))
		cs = append(cs, vk.Case{ID: fmt.Sprintf("dfs-silent-round/n3/branch%d", b), Run: func(t *vk.T) { c07DFSx(t, 3, 4, b, false, budget, true) }})
	}
	// n=3 all rounds: budgeted
	for b := 0; b < 12; b++ {
		b := b
		budget := int64(env.Pick(400, 20000))
		cs = append(cs, vk.Case{ID: fmt.Sprintf("dfs/n3/r2-4/branch%d", b), Run: func(t *vk.T) { c07DFS(t, 3, 4, b, false, budget) }})
	}
	for _, p := range []string{"frost-keygen", "taproot-keygen", "frost-sign", "taproot-sign", "doerner-keygen", "doerner-sign", "detstream"} {
		for i := 0; i < env.Pick(6, 100); i++ {
			p, i := p, i
			cs = append(cs, vk.Case{ID: fmt.Sprintf("sampled/%s/%d", p, i), Run: func(t *vk.T) { c07Sampled(t, p, i, env.Pick(12, 30)) }})
		}
	}
	for i := 0; i < env.Pick(2, 20); i++ {
		i := i
		cs = append(cs, vk.Case{ID: fmt.Sprintf("sampled/cmp-sign/%d", i), Run: func(t *vk.T) { c07Sampled(t, "cmp-sign", i, env.Pick(2, 4)) }})
	}
	return cs
}
