package checks

import (
	"bytes"
	"crypto/rand"
	"fmt"
	"io"

	"github.com/fxamacker/cbor/v2"
	"github.com/taurusgroup/multi-party-sig/pkg/math/curve"
	"github.com/taurusgroup/multi-party-sig/pkg/party"
	"github.com/taurusgroup/multi-party-sig/pkg/protocol"
	"github.com/taurusgroup/multi-party-sig/pkg/taproot"
	"github.com/taurusgroup/multi-party-sig/protocols/frost"
	"github.com/taurusgroup/multi-party-sig/verif/fx"
	"github.com/taurusgroup/multi-party-sig/verif/vk"
)

func init() {
	vk.Register(&vk.Check{
		ID:    "C11",
		Level: "exploration",
		Rule: "FROST signers are started in a lattice of signing contexts (message, signer set, session id, protocol variant, share: other party / refreshed / derived / other key) under a pinned crypto/rand.Reader (constant, short cycle, honest); the published (D_i,E_i) of all pairs of contexts are compared; the same for stand-alone BIP-340 signing over (key, message) pairs with constant / nil / honest randomness; " +
			"distinct non-trivial = distinct (reader, differing dimension) pairs compared, plus positive controls (equal context + constant reader => equal commitments) that held",
		MinDistinct: 20,
		Assumptions: []string{"crypto/rand.Reader is replaced process-wide inside the child; the positive control proves the pin is effective, otherwise the run is inconclusive"},
		Cases:       c11Cases,
		Workers:     4,
	})
}

type constReader struct{ b byte }

func (c constReader) Read(p []byte) (int, error) {
	for i := range p {
		p[i] = c.b
	}
	return len(p), nil
}

// shortReader returns at most n bytes per Read.
type shortReader struct {
	src io.Reader
	n   int
}

func (s *shortReader) Read(p []byte) (int, error) {
	if len(p) > s.n {
		p = p[:s.n]
	}
	return s.src.Read(p)
}

type cycleReader struct {
	buf []byte
	pos int
}

func (c *cycleReader) Read(p []byte) (int, error) {
	for i := range p {
		p[i] = c.buf[c.pos%len(c.buf)]
		c.pos++
	}
	return len(p), nil
}

type c11Ctx struct {
	dims    map[string]string // dimension -> value label
	variant string
	cfg     *frost.Config
	tcfg    *frost.TaprootConfig
	signers []party.ID
	sid     []byte
	msg     []byte
}

func (c *c11Ctx) start() (protocol.StartFunc, error) {
	if c.variant == "taproot" {
		return frost.SignTaproot(c.tcfg, c.signers, c.msg), nil
	}
	return frost.Sign(c.cfg, c.signers, c.msg), nil
}

// commitments starts a signer and returns the encoded (D_i, E_i) it publishes.
func (c *c11Ctx) commitments() ([]byte, error) {
	sf, _ := c.start()
	h, err := protocol.NewMultiHandler(sf, c.sid)
	if err != nil {
		return nil, err
	}
	select {
	case m := <-h.Listen():
		if m == nil {
			return nil, fmt.Errorf("no message")
		}
		var body map[string][]byte
		if err := cbor.Unmarshal(m.Data, &body); err != nil {
			return m.Data, nil
		}
		return append(append([]byte{}, body["D_i"]...), body["E_i"]...), nil
	default:
		return nil, fmt.Errorf("signer published nothing")
	}
}

func taprootView(c *frost.Config) *frost.TaprootConfig {
	vs := map[party.ID]*curve.Secp256k1Point{}
	for id, p := range c.VerificationShares.Points {
		vs[id] = p.(*curve.Secp256k1Point)
	}
	return &frost.TaprootConfig{ID: c.ID, Threshold: c.Threshold, PrivateShare: c.PrivateShare.(*curve.Secp256k1Scalar),
		PublicKey: c.PublicKey.(*curve.Secp256k1Point).XBytes(), ChainKey: c.ChainKey, VerificationShares: vs}
}

func c11Cases(env vk.Env) []vk.Case {
	var cs []vk.Case
	for i := 0; i < env.Pick(3, 200); i++ {
		i := i
		cs = append(cs, vk.Case{ID: fmt.Sprintf("frost/%d", i), Run: func(t *vk.T) { c11Frost(t, i, env) }})
		cs = append(cs, vk.Case{ID: fmt.Sprintf("bip340/%d", i), Run: func(t *vk.T) { c11BIP340(t, i) }})
		if i < env.Pick(1, 4) {
			cs = append(cs, vk.Case{ID: fmt.Sprintf("signers-equal-concatenation/%d", i), Run: func(t *vk.T) { c11Concat(t, i) }})
		}
	}
	return cs
}

func c11Frost(t *vk.T, i int, env vk.Env) {
	r := t.Rng
	saved := rand.Reader
	defer func() { rand.Reader = saved }()
	n, th := 4, 1
	ids := fx.IDs(r, i%3, n)
	k1, _, err := fx.FrostKeygen(r, ids, th, fx.Opt{})
	if err != nil {
		t.Inconclusive("keygen failed: %v", err)
		return
	}
	k2, _, err := fx.FrostKeygen(r, ids, th, fx.Opt{})
	if err != nil {
		t.Inconclusive("keygen failed: %v", err)
		return
	}
	snap := map[party.ID]*frost.Config{}
	for id, c := range k1 {
		snap[id] = fx.CloneFrost(c)
	}
	kr, _, err := fx.FrostRefresh(r, ids, snap, fx.Opt{})
	if err != nil {
		t.Inconclusive("refresh failed: %v", err)
		return
	}
	kd := map[party.ID]*frost.Config{}
	for id, c := range k1 {
		d, err := c.DeriveChild(7)
		if err != nil {
			t.Inconclusive("derive failed: %v", err)
			return
		}
		kd[id] = d
	}
	me := ids[0]
	msg := r.Bytes(32)
	sid := r.Bytes(8)
	S := []party.ID{ids[0], ids[1], ids[2]}
	base := func() *c11Ctx {
		return &c11Ctx{dims: map[string]string{}, variant: "plain", cfg: k1[me], tcfg: taprootView(k1[me]), signers: S, sid: sid, msg: msg}
	}
	var ctxs []*c11Ctx
	add := func(dim, val string, f func(c *c11Ctx)) {
		c := base()
		f(c)
		c.dims[dim] = val
		ctxs = append(ctxs, c)
	}
	ctxs = append(ctxs, base())
	// message
	add("message", "bitflip", func(c *c11Ctx) { m := append([]byte{}, msg...); m[5] ^= 1; c.msg = m })
	add("message", "longer", func(c *c11Ctx) { c.msg = append(append([]byte{}, msg...), 0) })
	add("message", "shorter", func(c *c11Ctx) { c.msg = msg[:31] })
	add("message", "random", func(c *c11Ctx) { c.msg = r.Bytes(32) })
	// signer set
	add("signers", "other-subset", func(c *c11Ctx) { c.signers = []party.ID{ids[0], ids[1], ids[3]} })
	add("signers", "superset", func(c *c11Ctx) { c.signers = ids })
	add("signers", "smaller", func(c *c11Ctx) { c.signers = []party.ID{ids[0], ids[1]} })
	// session id
	add("session-id", "nil", func(c *c11Ctx) { c.sid = nil })
	add("session-id", "empty", func(c *c11Ctx) { c.sid = []byte{} })
	add("session-id", "bitflip", func(c *c11Ctx) { s := append([]byte{}, sid...); s[0] ^= 1; c.sid = s })
	add("session-id", "longer", func(c *c11Ctx) { c.sid = append(append([]byte{}, sid...), 0) })
	// variant
	add("variant", "taproot", func(c *c11Ctx) { c.variant = "taproot" })
	// share
	add("share", "refreshed", func(c *c11Ctx) { c.cfg = kr[me]; c.tcfg = taprootView(kr[me]) })
	add("share", "derived", func(c *c11Ctx) { c.cfg = kd[me]; c.tcfg = taprootView(kd[me]) })
	add("share", "other-key", func(c *c11Ctx) { c.cfg = k2[me]; c.tcfg = taprootView(k2[me]) })
	add("share", "other-party", func(c *c11Ctx) {
		// same identity and context, another party's share value
		cc := fx.CloneFrost(k1[me])
		cc.PrivateShare = k1[ids[1]].PrivateShare
		c.cfg = cc
		c.tcfg = taprootView(cc)
	})
	// a few multi-dimension contexts
	for j := 0; j < env.Pick(6, 100); j++ {
		j := j
		add("multi", fmt.Sprint(j), func(c *c11Ctx) {
			c.msg = r.Bytes(20 + r.Intn(30))
			c.sid = r.Bytes(r.Intn(10))
			if r.Bool() {
				c.variant = "taproot"
			}
			if r.Bool() {
				c.cfg, c.tcfg = kr[me], taprootView(kr[me])
			}
		})
	}
	readers := []struct {
		name string
		mk   func() io.Reader
	}{
		{"constant", func() io.Reader { return constReader{0x42} }},
		{"cycle", func() io.Reader { return &cycleReader{buf: []byte{1, 2, 3, 4, 5, 6, 7}} }},
		{"honest", func() io.Reader { return saved }},
	}
	for _, rd := range readers {
		outs := make([][]byte, len(ctxs))
		for ci, c := range ctxs {
			rand.Reader = rd.mk() // the same reader state for every attempt
			o, err := c.commitments()
			rand.Reader = saved
			if err != nil {
				t.Inconclusive("context %v could not start: %v", c.dims, err)
				continue
			}
			outs[ci] = o
		}
		// positive / negative controls on the base context
		rand.Reader = rd.mk()
		again, _ := ctxs[0].commitments()
		rand.Reader = saved
		switch rd.name {
		case "constant", "cycle":
			if !bytes.Equal(again, outs[0]) {
				t.Inconclusive("reader %s is not effectively pinned: equal context gave different commitments", rd.name)
				continue
			}
			t.Distinct("control|%s|equal-context-equal-commitments", rd.name)
		case "honest":
			t.Distinct("control|honest|equal-context")
			if bytes.Equal(again, outs[0]) {
				t.Violation("frost|nonce-repeats-with-working-rng", "two signing attempts with identical inputs and a working random source published the same (D_i,E_i)")
			}
		}
		for a := 0; a < len(ctxs); a++ {
			for b := a + 1; b < len(ctxs); b++ {
				if outs[a] == nil || outs[b] == nil {
					continue
				}
				t.Obs("evaluations", 1)
				dim := "multi"
				if a == 0 {
					for d := range ctxs[b].dims {
						dim = d + "=" + ctxs[b].dims[d]
					}
				}
				if a == 0 || b%5 == 0 {
					t.Distinct("frost|%s|%s", rd.name, dim)
				}
				if bytes.Equal(outs[a], outs[b]) {
					key := "frost|nonce-reuse|" + rd.name
					if a == 0 {
						for d := range ctxs[b].dims {
							key += "|" + d
						}
					}
					t.Violation(key, "contexts %v and %v publish the same nonce commitments %x under a %s random source", ctxs[a].dims, ctxs[b].dims, hex8(outs[a]), rd.name)
				}
			}
		}
	}
	if i == 0 {
		t.Sample(map[string]any{"kind": "frost nonce lattice", "contexts": len(ctxs), "readers": []string{"constant", "cycle", "honest"}, "pairs_per_reader": len(ctxs) * (len(ctxs) - 1) / 2})
	}
}

func c11BIP340(t *vk.T, i int) {
	r := t.Rng
	type km struct {
		sk  []byte
		msg []byte
		tag string
	}
	sk1 := make([]byte, 32)
	randScalarBig(r).FillBytes(sk1)
	sk2 := make([]byte, 32)
	randScalarBig(r).FillBytes(sk2)
	m1 := r.Bytes(32)
	m2 := append([]byte{}, m1...)
	m2[31] ^= 1
	items := []km{{sk1, m1, "base"}, {sk1, m2, "message-bitflip"}, {sk1, m1[:31], "message-shorter"}, {sk1, append(append([]byte{}, m1...), 0), "message-longer"}, {sk2, m1, "other-key"}, {sk2, m2, "other-key-other-message"}}
	for _, rdName := range []string{"constant", "nil", "honest"} {
		sigs := make([][]byte, len(items))
		for k, it := range items {
			var rd io.Reader
			switch rdName {
			case "constant":
				rd = constReader{0x17}
			case "honest":
				rd = rand.Reader
			}
			s, err := taproot.SecretKey(it.sk).Sign(rd, it.msg)
			if err != nil {
				t.Inconclusive("sign failed: %v", err)
				continue
			}
			sigs[k] = s
		}
		for a := 0; a < len(items); a++ {
			for b := a + 1; b < len(items); b++ {
				if sigs[a] == nil || sigs[b] == nil {
					continue
				}
				t.Obs("evaluations", 1)
				t.Distinct("bip340|%s|%s-vs-%s", rdName, items[a].tag, items[b].tag)
				if bytes.Equal(sigs[a][:32], sigs[b][:32]) {
					t.Violation("bip340|nonce-reuse|"+rdName+"|"+items[b].tag, "(key,message) pairs %s and %s share the nonce point R=%x under %s randomness", items[a].tag, items[b].tag, sigs[a][:8], rdName)
				}
			}
		}
		// identical inputs
		var rd io.Reader
		if rdName == "constant" {
			rd = constReader{0x17}
		} else if rdName == "honest" {
			rd = rand.Reader
		}
		again, _ := taproot.SecretKey(sk1).Sign(rd, m1)
		switch rdName {
		case "constant":
			if !bytes.Equal(again, sigs[0]) {
				t.Inconclusive("constant aux did not reproduce the signature")
			} else {
				t.Distinct("control|bip340|constant-aux-deterministic")
			}
		default:
			t.Distinct("control|bip340|%s|equal-inputs", rdName)
			if bytes.Equal(again[:32], sigs[0][:32]) {
				t.Violation("bip340|nonce-repeats|"+rdName, "identical (key,message) signed twice with %s randomness reuse the nonce", rdName)
			}
		}
	}
	// a working random source that delivers its bytes in short reads (a conforming io.Reader may do that)
	for _, chunk := range []int{1, 5} {
		seenR := map[string]bool{}
		coll := false
		for k := 0; k < 300; k++ {
			s, err := taproot.SecretKey(sk1).Sign(&shortReader{src: rand.Reader, n: chunk}, m1)
			if err != nil {
				t.Inconclusive("sign failed: %v", err)
				break
			}
			t.Obs("evaluations", 1)
			if seenR[string(s[:32])] {
				coll = true
			}
			seenR[string(s[:32])] = true
		}
		t.Distinct("bip340|honest-short-reads-%d|equal-inputs-x300", chunk)
		if coll {
			t.Violation("bip340|nonce-repeats|honest-short-reads", "identical (key,message) signed 300 times with a working random source that returns %d byte(s) per Read reused a nonce", chunk)
		}
	}
	if i == 0 {
		t.Sample(map[string]any{"kind": "bip340 nonce lattice", "pairs": len(items) * (len(items) - 1) / 2, "randomness": []string{"constant", "nil (internal counter)", "honest"}})
	}
}

// c11Concat: two signer sets of equal size whose sorted identifiers concatenate to the same string ({x,a,bc} and
// {x,ab,c}): under a pinned random source the same signer must still publish different nonce commitments for them.
func c11Concat(t *vk.T, i int) {
	r := t.Rng
	saved := rand.Reader
	defer func() { rand.Reader = saved }()
	ids := []party.ID{"x", "a", "bc", "ab", "c"}
	k, _, err := fx.FrostKeygen(r, ids, 2, fx.Opt{})
	if err != nil {
		t.Inconclusive("keygen failed: %v", err)
		return
	}
	me := party.ID("x")
	msg, sid := r.Bytes(32), r.Bytes(6)
	sets := [][]party.ID{{"x", "a", "bc"}, {"x", "ab", "c"}}
	// and two sets that differ only in the last byte of the identifier that sorts last
	ids2 := []party.ID{"a", "b", "c", "d"}
	if k2, _, err2 := fx.FrostKeygen(r, ids2, 2, fx.Opt{}); err2 == nil {
		for _, variant := range []string{"plain", "taproot"} {
			var outs [][]byte
			for _, S := range [][]party.ID{{"a", "b", "c"}, {"a", "b", "d"}} {
				c := &c11Ctx{dims: map[string]string{}, variant: variant, cfg: k2["a"], tcfg: taprootView(k2["a"]), signers: S, sid: sid, msg: msg}
				rand.Reader = constReader{0x29}
				o, err := c.commitments()
				rand.Reader = saved
				if err != nil {
					break
				}
				outs = append(outs, o)
			}
			if len(outs) == 2 {
				t.Obs("evaluations", 1)
				t.Distinct("frost|%s|constant|signers=last-identifier-last-byte", variant)
				if bytes.Equal(outs[0], outs[1]) {
					t.Violation("frost|nonce-reuse|constant|signers-last-byte", "%s signing: signer sets {a,b,c} and {a,b,d} publish the same nonce commitments under a constant random source", variant)
				}
			}
		}
	}
	for _, variant := range []string{"plain", "taproot"} {
		for _, rd := range []struct {
			name string
			mk   func() io.Reader
		}{{"constant", func() io.Reader { return constReader{0x17} }}, {"cycle", func() io.Reader { return &cycleReader{buf: []byte{9, 8, 7, 6, 5}} }}} {
			var outs [][]byte
			for _, S := range sets {
				c := &c11Ctx{dims: map[string]string{}, variant: variant, cfg: k[me], tcfg: taprootView(k[me]), signers: S, sid: sid, msg: msg}
				rand.Reader = rd.mk()
				o, err := c.commitments()
				rand.Reader = saved
				if err != nil {
					t.Inconclusive("signer set %q could not start: %v", S, err)
					return
				}
				outs = append(outs, o)
			}
			t.Obs("evaluations", 1)
			t.Distinct("frost|%s|%s|signers=equal-concatenation", variant, rd.name)
			if bytes.Equal(outs[0], outs[1]) {
				t.Violation("frost|nonce-reuse|"+rd.name+"|signers-equal-concatenation", "%s signing: signer sets %q and %q publish the same nonce commitments under a %s random source", variant, sets[0], sets[1], rd.name)
			}
		}
	}
}
