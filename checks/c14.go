package checks

import (
	"bytes"
	"fmt"

	"github.com/taurusgroup/multi-party-sig/verif/fx"
	"github.com/taurusgroup/multi-party-sig/verif/ref"
	"github.com/taurusgroup/multi-party-sig/verif/vk"
)

func init() {
	vk.Register(&vk.Check{
		ID:    "C14",
		Level: "exploration",
		Rule: "after real key generations (CMP, FROST, FROST-Taproot, Doerner) derivation paths of length <=3 over indices {0,1,2,2^31-1,random}, interleaved with refresh, are applied on every party; at every step the chain key is 32 bytes and common, the child key and chain code equal the reference BIP-32 CKDpub of (parent key, chain key, index), the derived shares pass the consistent-key-material oracle for the reference child key and a signing session verifies under it; " +
			"distinct non-trivial = distinct (protocol, n, t, path shape with index classes and refresh positions) whose child key was compared with the reference",
		MinDistinct:  30,
		Assumptions:  []string{"reference BIP-32 public derivation in verif/ref (HMAC-SHA512, math/big), checked against BIP-32 test vector 1 at start-up", "indices >= 2^31 are outside the quantifier"},
		Cases:        c14Cases,
		CaseTimeoutS: 2400,
	})
}

func c14Cases(env vk.Env) []vk.Case {
	var cs []vk.Case
	type nt struct{ n, t int }
	lat := []nt{{1, 0}, {2, 1}, {3, 1}, {3, 2}, {4, 2}, {5, 1}, {5, 4}, {7, 3}}
	for _, x := range lat {
		for rep := 0; rep < env.Pick(3, 60); rep++ {
			x, rep := x, rep
			cs = append(cs, vk.Case{ID: fmt.Sprintf("frost/n%d/t%d/%d", x.n, x.t, rep), Run: func(t *vk.T) { c14Run(t, "frost", x.n, x.t, rep, env) }})
			cs = append(cs, vk.Case{ID: fmt.Sprintf("taproot/n%d/t%d/%d", x.n, x.t, rep), Run: func(t *vk.T) { c14Run(t, "frost-taproot", x.n, x.t, rep, env) }})
		}
	}
	for i := 0; i < env.Pick(12, 200); i++ {
		i := i
		cs = append(cs, vk.Case{ID: fmt.Sprintf("doerner/%d", i), Run: func(t *vk.T) { c14Run(t, "doerner", 2, 1, i, env) }})
	}
	cmps := []nt{{3, 1}, {2, 1}, {3, 2}}
	if env.Thorough() {
		cmps = []nt{{2, 1}, {3, 1}, {3, 2}, {4, 1}, {4, 2}, {4, 3}, {3, 0}, {5, 2}, {2, 0}, {3, 1}}
	}
	for i, x := range cmps {
		i, x := i, x
		cs = append(cs, vk.Case{ID: fmt.Sprintf("cmp/n%d/t%d/%d", x.n, x.t, i), Run: func(t *vk.T) { c14Run(t, "cmp", x.n, x.t, i, env) }})
	}
	return cs
}

func c14Index(r *vk.Rand, k int) (uint32, string) {
	switch k % 6 {
	case 0:
		return 0, "0"
	case 1:
		return 1, "1"
	case 2:
		return 2, "2"
	case 3:
		return 1<<31 - 1, "2^31-1"
	case 4:
		return uint32(r.Intn(1 << 31)), "random"
	}
	return uint32(1 << uint(r.Intn(31))), "2^k"
}

func c14Run(t *vk.T, proto string, n, th, rep int, env vk.Env) {
	r := t.Rng
	ids := fx.IDs(r, rep%4, n)
	opt := func() fx.Opt { _, s := pickSched(r, ids); return fx.Opt{Sched: s, SessionID: r.Bytes(4)} }
	var cur fx.Mat
	var err error
	switch proto {
	case "frost":
		cur, err = fx.NewFrostMat(r, ids, th, opt())
	case "frost-taproot":
		cur, err = fx.NewTaprootMat(r, ids, th, opt())
	case "doerner":
		cur, err = fx.NewDoernerMat(r, ids[rep%2], ids[1-rep%2], opt())
	case "cmp":
		fx.InstallPrimeHook()
		fx.SetPrimeOffset(uint64(r.Intn(1000)))
		cur, err = fx.NewCMPMat(r, ids, th, opt())
	}
	if err != nil {
		t.Violation(proto+"|keygen-failed", "n=%d t=%d: %v", n, th, err)
		return
	}
	shares := cur.Shares()
	if f, _ := fx.CheckMaterial(r, shares, nil, 20); len(f) > 0 {
		t.Violation(proto+"|keygen|"+f[0][0], "%s", f[0][1])
		return
	}
	for _, s := range shares {
		if len(s.ChainKey) != 32 {
			t.Violation(proto+"|chain-key-length-after-keygen", "party %q holds a %d-byte chain key after key generation", s.ID, len(s.ChainKey))
			return
		}
	}
	pathLen := 1 + r.Intn(3)
	shape := ""
	steps := 0
	for step := 0; step < pathLen+1 && steps < pathLen; step++ {
		// optional refresh between derivations
		if r.Intn(3) == 0 && !(proto == "cmp" && !env.Thorough() && step > 0) {
			nw, err := cur.Refresh(r, opt())
			if err != nil {
				t.Violation(proto+"|refresh-failed", "n=%d t=%d path=%s: %v", n, th, shape, err)
				return
			}
			cur = nw
			shape += "R/"
			shares = cur.Shares()
			if f, _ := fx.CheckMaterial(r, shares, nil, 20); len(f) > 0 {
				t.Violation(proto+"|after-refresh|"+f[0][0], "path=%s: %s", shape, f[0][1])
				return
			}
		}
		// optional serialise + restore of every party's material between derivations: key and chain key must survive it
		if r.Intn(3) == 0 || (proto == "cmp" && step == 0) {
			before := cur.Shares()
			rs, rerr := cur.Snapshot()
			if rerr != nil {
				t.Violation(proto+"|restore-failed", "n=%d t=%d path=%s: %v", n, th, shape, rerr)
				return
			}
			after := rs.Shares()
			t.Obs("restores_between_derivations", 1)
			for i := range before {
				if i < len(after) && (!bytes.Equal(before[i].ChainKey, after[i].ChainKey) || !before[i].GroupKey.Equal(after[i].GroupKey)) {
					t.Violation(proto+"|restore-changes-chain-key-or-key", "%s n=%d t=%d path=%s: party %q holds chain key %x / key %x before and %x / %x after serialise + restore", proto, n, th, shape, before[i].ID, before[i].ChainKey, before[i].GroupKey.Compress(), after[i].ChainKey, after[i].GroupKey.Compress())
					return
				}
			}
			cur = rs
			shape += "S/"
		}
		// optional copy through the library's own Clone method (material types that offer one): the copy must be the
		// same key material — chain key, key, a consistent sharing — and everything below goes on with the copy
		if cl, ok := cur.(fx.Cloner); ok && r.Intn(2) == 0 {
			before := cur.Shares()
			cm, cerr := cl.CloneVia()
			if cerr != nil {
				t.Violation(proto+"|clone-failed", "n=%d t=%d path=%s: %v", n, th, shape, cerr)
				return
			}
			after := cm.Shares()
			t.Obs("clones_between_derivations", 1)
			for i := range before {
				if i < len(after) && (!bytes.Equal(before[i].ChainKey, after[i].ChainKey) || !before[i].GroupKey.Equal(after[i].GroupKey)) {
					t.Violation(proto+"|clone-changes-chain-key-or-key", "%s n=%d t=%d path=%s: party %q holds chain key %x / key %x, its Clone() %x / %x", proto, n, th, shape, before[i].ID, before[i].ChainKey, before[i].GroupKey.Compress(), after[i].ChainKey, after[i].GroupKey.Compress())
					return
				}
			}
			pk := before[0].GroupKey
			if f, _ := fx.CheckMaterial(r, after, &pk, 20); len(f) > 0 {
				t.Violation(proto+"|clone|"+f[0][0], "path=%s: the cloned material is not the same sharing: %s", shape, f[0][1])
				return
			}
			cur = cm
			shape += "C/"
		}
		shares = cur.Shares()
		parent := shares[0].GroupKey
		chain := shares[0].ChainKey
		idx, icls := c14Index(r, rep+step*5+n)
		steps++
		shape += icls + "/"
		tag := fmt.Sprintf("%s n=%d t=%d ids=%q path=%s index=%d", proto, n, th, ids, shape, idx)
		if len(chain) != 32 {
			t.Violation(proto+"|chain-key-length", "%s: chain key has %d bytes before derivation", tag, len(chain))
			return
		}
		wantKey, wantChain, _, rerr := ref.CKDpub(parent, chain, idx)
		var child fx.Mat
		var derr error
		if p, fr, txt := vk.Guard(func() { child, derr = cur.Derive(idx) }); p {
			t.Violation(proto+"|derive-panic|"+fr, "%s: %s", tag, txt)
			return
		}
		if rerr != nil {
			// BIP-32 says the index is invalid; the library must refuse as well
			if derr == nil {
				t.Violation(proto+"|invalid-index-accepted", "%s: reference says %v", tag, rerr)
			}
			continue
		}
		if derr != nil {
			t.Violation(proto+"|derive-failed", "%s: %v", tag, derr)
			return
		}
		t.Obs("evaluations", 1)
		t.Obs("derivations|"+proto, 1)
		cs := child.Shares()
		expect := wantKey
		if cs[0].XOnly && expect.Y.Bit(0) == 1 {
			expect = expect.Neg() // BIP-340 keys are the even-Y representative
		}
		for _, s := range cs {
			if s.Malformed != "" {
				t.Violation(proto+"|derived-material-malformed", "%s: %s", tag, s.Malformed)
				return
			}
			if !s.GroupKey.Equal(expect) {
				t.Violation(proto+"|child-key-differs-from-BIP32", "%s: party %q holds child key %x, BIP-32 prescribes %x", tag, s.ID, s.GroupKey.Compress(), expect.Compress())
				return
			}
			if !bytes.Equal(s.ChainKey, wantChain) {
				t.Violation(proto+"|child-chain-code-differs-from-BIP32", "%s: party %q holds chain code %x, BIP-32 prescribes %x", tag, s.ID, s.ChainKey, wantChain)
				return
			}
		}
		if f, _ := fx.CheckMaterial(r, cs, &expect, 40); len(f) > 0 {
			t.Violation(proto+"|derived-sharing|"+f[0][0], "%s: %s", tag, f[0][1])
			return
		}
		t.Distinct("%s|n=%d|t=%d|%s", proto, n, th, shape)
		// a sibling derived from the very same parent objects, and the parent afterwards: derivation must not disturb its input
		{
			idx2, icls2 := c14Index(r, rep+step*5+n+3)
			if idx2 == idx {
				idx2 = (idx + 1) % (1 << 31)
			}
			want2, chain2, _, rerr2 := ref.CKDpub(parent, chain, idx2)
			var sib fx.Mat
			var serr error
			if p, fr, txt := vk.Guard(func() { sib, serr = cur.Derive(idx2) }); p {
				t.Violation(proto+"|derive-panic|"+fr, "%s sibling index=%d: %s", tag, idx2, txt)
				return
			}
			if rerr2 == nil && serr == nil {
				exp2 := want2
				ss := sib.Shares()
				if ss[0].XOnly && exp2.Y.Bit(0) == 1 {
					exp2 = exp2.Neg()
				}
				t.Obs("sibling_derivations", 1)
				t.Distinct("%s|sibling|%s+%s", proto, icls, icls2)
				for _, s := range ss {
					if s.Malformed != "" || !s.GroupKey.Equal(exp2) || !bytes.Equal(s.ChainKey, chain2) {
						t.Violation(proto+"|second-derivation-from-same-parent-differs-from-BIP32", "%s: a second child (index %d) derived from the same parent material does not match BIP-32 at party %q", tag, idx2, s.ID)
						return
					}
				}
				if f, _ := fx.CheckMaterial(r, ss, &exp2, 20); len(f) > 0 {
					t.Violation(proto+"|second-derivation-sharing|"+f[0][0], "%s sibling index=%d: %s", tag, idx2, f[0][1])
					return
				}
				if f, _ := fx.CheckMaterial(r, cur.Shares(), &parent, 20); len(f) > 0 {
					t.Violation(proto+"|derivation-corrupts-parent|"+f[0][0], "%s: after deriving children the parent material is no longer consistent: %s", tag, f[0][1])
					return
				}
				if f, _ := fx.CheckMaterial(r, child.Shares(), &expect, 20); len(f) > 0 {
					t.Violation(proto+"|derivation-corrupts-sibling|"+f[0][0], "%s: after deriving a sibling the first child is no longer consistent: %s", tag, f[0][1])
					return
				}
			}
		}
		// the same index once more after a refresh of the very parent (same key, new chain key): the child must be the
		// BIP-32 child for the chain key held now, not a remembered one
		if proto != "cmp" || env.Thorough() {
			if rp, rferr := cur.Refresh(r, opt()); rferr != nil {
				t.Violation(proto+"|refresh-failed", "%s (refresh of the parent after deriving): %v", tag, rferr)
				return
			} else {
				rsh := rp.Shares()
				chainR := rsh[0].ChainKey
				wantR, wantChainR, _, rerrR := ref.CKDpub(rsh[0].GroupKey, chainR, idx)
				var again fx.Mat
				var aerr error
				if p, fr, txt := vk.Guard(func() { again, aerr = rp.Derive(idx) }); p {
					t.Violation(proto+"|derive-panic|"+fr, "%s after refresh: %s", tag, txt)
					return
				}
				if rerrR == nil && len(chainR) == 32 {
					if aerr != nil {
						t.Violation(proto+"|derive-failed", "%s after a refresh of the parent: %v", tag, aerr)
						return
					}
					expR := wantR
					as := again.Shares()
					if as[0].XOnly && expR.Y.Bit(0) == 1 {
						expR = expR.Neg()
					}
					t.Obs("rederivations_after_refresh", 1)
					t.Distinct("%s|same-index-after-refresh|%s|chain-key-changed=%v", proto, icls, !bytes.Equal(chainR, chain))
					for _, s := range as {
						if s.Malformed != "" || !s.GroupKey.Equal(expR) || !bytes.Equal(s.ChainKey, wantChainR) {
							t.Violation(proto+"|same-index-after-refresh-differs-from-BIP32", "%s: index %d derived again after a refresh of the parent (chain key %x -> %x) gives key %x / chain code %x at party %q, BIP-32 prescribes %x / %x", tag, idx, chain, chainR, s.GroupKey.Compress(), s.ChainKey, s.ID, expR.Compress(), wantChainR)
							return
						}
					}
					if f, _ := fx.CheckMaterial(r, as, &expR, 20); len(f) > 0 {
						t.Violation(proto+"|same-index-after-refresh-sharing|"+f[0][0], "%s: %s", tag, f[0][1])
						return
					}
				}
			}
		}
		cur = child
		// signing with derived material must succeed under the reference-derived key
		if proto != "cmp" || steps == 1 || env.Thorough() {
			c08Sign(t, r, cur, nil, 0, expect, tag, proto, n, th)
		}
		if rep == 0 && steps == 1 {
			t.Sample(map[string]any{"protocol": proto, "n": n, "t": th, "index": idx, "parent": fmt.Sprintf("%x", parent.Compress()), "child": fmt.Sprintf("%x", expect.Compress())})
		}
	}
}
