package checks

import (
	"fmt"
	"math/big"

	"github.com/taurusgroup/multi-party-sig/pkg/hash"
	"github.com/taurusgroup/multi-party-sig/pkg/math/curve"
	zkprm "github.com/taurusgroup/multi-party-sig/pkg/zk/prm"
	zksch "github.com/taurusgroup/multi-party-sig/pkg/zk/sch"
	"github.com/taurusgroup/multi-party-sig/verif/vk"
)

// c10SchDegenerate: Schnorr proofs for the statement "X = identity", which needs no witness: with the commitment
// C = a*gen and the response z = a the verification equation z*gen = C + e*X holds for every challenge e.  Such a
// "proof" says nothing about the prover and must be refused — through Proof.Verify and through the split
// commitment / response interface key generation uses, for the default and for a chosen generator, under any context.
func c10SchDegenerate(t *vk.T, i int) {
	r := t.Rng
	for k := 0; k < 8; k++ {
		a := LibScalar(randScalarBig(r))
		var gen curve.Point // nil: the default generator
		gname := "default-generator"
		eff := group.NewBasePoint()
		if k%2 == 1 {
			gen = LibScalar(randScalarBig(r)).ActOnBase()
			eff = gen
			gname = "chosen-generator"
		}
		ident := group.NewPoint()
		h := func() *hash.Hash {
			return hash.New(hash.BytesWithDomain{TheDomain: "ctx", Bytes: []byte{byte(i), byte(k)}})
		}
		// the forged pair, built through the library's own types
		pr := zksch.EmptyProof(group)
		pr.C.C = a.Act(eff)
		pr.Z.Z = group.NewScalar().Set(a)
		t.Obs("evaluations", 2)
		t.Distinct("sch|witnessless-identity|%s|proof", gname)
		t.Distinct("sch|witnessless-identity|%s|split", gname)
		var ok1, ok2 bool
		if p, fr, txt := vk.Guard(func() { ok1 = pr.Verify(h(), ident, gen) }); p {
			t.Violation("sch|verifier-panic|identity-public|"+fr, "Proof.Verify panicked on the identity public point: %s", txt)
			return
		}
		if p, fr, txt := vk.Guard(func() { ok2 = pr.Z.Verify(h(), ident, &pr.C, gen) }); p {
			t.Violation("sch|verifier-panic|identity-public|"+fr, "Response.Verify panicked on the identity public point: %s", txt)
			return
		}
		if ok1 {
			t.Violation("sch|witnessless-proof-accepted|identity-public|"+gname+"|proof", "Proof.Verify accepts (C=a*gen, z=a) for the identity public point (%s): a proof made without any witness", gname)
		}
		if ok2 {
			t.Violation("sch|witnessless-proof-accepted|identity-public|"+gname+"|split", "Response.Verify accepts (C=a*gen, z=a) for the identity public point (%s): a proof made without any witness", gname)
		}
		// control: the same pair is an honest proof for X = a*gen only by accident of the challenge — it must
		// not verify for an unrelated public point either
		other := LibScalar(randScalarBig(r)).Act(eff)
		var ok3 bool
		vk.Guard(func() { ok3 = pr.Verify(h(), other, gen) })
		if ok3 {
			t.Violation("sch|witnessless-proof-accepted|unrelated-public|"+gname, "Proof.Verify accepts (C=a*gen, z=a) for an unrelated public point")
		}
	}
}

// c10PrmChallenges recovers, from honest prm proofs, the challenge bit the prover answered at each of the 80
// positions (t^z = A means 0, t^z = A*s means 1; both at once only if s = 1).  The proof is sound only as far as the
// challenge is unpredictable: a position that never takes one of the two values, or two positions that always agree,
// over K independent honest proofs is a challenge space smaller than 2^80 (a cheater guesses the challenge of a false
// statement with the matching probability).  With K proofs a position is constant by chance with probability 2^(1-K)
// and a pair equal with 2^-K: K >= 48 makes a false alarm less likely than 2^-35.
func c10PrmChallenges(t *vk.T, envIdx, K int) {
	e := zkEnvAt(envIdx)
	sk := e.prover.sk
	var bits [][]bool
	for k := 0; k < K; k++ {
		ped, lambda := sk.GeneratePedersen()
		pub := zkprm.Public{Aux: ped}
		priv := zkprm.Private{Lambda: lambda, Phi: sk.Phi(), P: sk.P(), Q: sk.Q()}
		h := hash.New(hash.BytesWithDomain{TheDomain: "ctx", Bytes: []byte{byte(envIdx), byte(k), byte(k >> 8)}})
		proof := zkprm.NewProof(priv, h.Clone(), pub, nil)
		if !proof.Verify(pub, h.Clone(), nil) {
			t.Violation("prm|honest-proof-rejected|challenge-monitor", "an honest prm proof does not verify (proof %d)", k)
			return
		}
		n, s, tt := ped.N().Big(), ped.S().Big(), ped.T().Big()
		if s.Cmp(big.NewInt(1)) == 0 {
			continue
		}
		row := make([]bool, len(proof.As))
		for i := range proof.As {
			lhs := new(big.Int).Exp(tt, proof.Zs[i], n)
			as := new(big.Int).Mul(proof.As[i], s)
			as.Mod(as, n)
			switch {
			case lhs.Cmp(proof.As[i]) == 0:
				row[i] = false
			case lhs.Cmp(as) == 0:
				row[i] = true
			default:
				t.Violation("prm|accepted-proof-fails-its-equation", "proof %d position %d: t^z is neither A nor A*s although Verify accepted", k, i)
				return
			}
		}
		bits = append(bits, row)
		t.Obs("evaluations", 1)
	}
	if len(bits) < 48 {
		t.Inconclusive("prm challenge monitor: only %d proofs observed", len(bits))
		return
	}
	m := len(bits[0])
	t.Obs("prm_challenge_bits_recovered", int64(m*len(bits)))
	distinctRows := map[string]bool{}
	for _, row := range bits {
		distinctRows[fmt.Sprint(row)] = true
	}
	t.Obs("prm_distinct_challenge_vectors", int64(len(distinctRows)))
	for i := 0; i < m; i++ {
		t.Distinct("prm|challenge-position|%d", i)
		ones := 0
		for _, row := range bits {
			if row[i] {
				ones++
			}
		}
		if ones == 0 || ones == len(bits) {
			t.Violation("prm|challenge-position-constant", "challenge position %d had the value %v in all %d honest proofs: the challenge space is smaller than 2^%d", i, ones != 0, len(bits), m)
			return
		}
	}
	for i := 0; i < m; i++ {
		for j := i + 1; j < m; j++ {
			same, opp := true, true
			for _, row := range bits {
				if row[i] != row[j] {
					same = false
				} else {
					opp = false
				}
			}
			if same || opp {
				t.Violation("prm|challenge-positions-coupled", "challenge positions %d and %d were %s in all %d honest proofs: the challenge space is smaller than 2^%d", i, j, map[bool]string{true: "equal", false: "opposite"}[same], len(bits), m)
				return
			}
		}
	}
}
