package checks

import (
	"bytes"
	"fmt"
	"math/big"
	"reflect"

	"github.com/cronokirby/saferith"
	"github.com/taurusgroup/multi-party-sig/internal/ot"
	"github.com/taurusgroup/multi-party-sig/pkg/hash"
	"github.com/taurusgroup/multi-party-sig/pkg/math/curve"
	"github.com/taurusgroup/multi-party-sig/verif/fx"
	"github.com/taurusgroup/multi-party-sig/verif/ref"
	"github.com/taurusgroup/multi-party-sig/verif/vk"
)

func init() {
	vk.Register(&vk.Check{
		ID:    "C13",
		Level: "exploration",
		Rule: "direct drive of internal/ot: random OT (both choices), correlated/extended/additive OT relations for every batch index under all-0/all-1/alternating/random choice vectors, multiplication on a boundary lattice of scalar pairs with one setup reused under distinct context hashes, and single-field alterations of every setup/online message (error on the checking side or a still-correct product); " +
			"distinct non-trivial = distinct (layer, choice-vector class | scalar-pair class | altered field path and alteration kind) that produced an oracle verdict",
		MinDistinct: 40,
		Assumptions: []string{"unexported result fields are read with reflect+unsafe", "scalar arithmetic of the oracle is math/big"},
		Cases:       c13Cases,
	})
}

func otBit(i int, data []byte) byte { return (data[i>>3] >> (i & 7)) & 1 }

// fieldBytes reads an unexported [][16]byte / [N][16]byte / [16]byte field as [][]byte.
func fieldRows(obj interface{}, name string) [][]byte {
	f, err := fx.Unexported(reflect.ValueOf(obj), name)
	if err != nil {
		panic(vk.HarnessErrPrefix + err.Error())
	}
	var out [][]byte
	switch f.Kind() {
	case reflect.Slice, reflect.Array:
		if f.Type().Elem().Kind() == reflect.Uint8 {
			b := make([]byte, f.Len())
			for i := range b {
				b[i] = byte(f.Index(i).Uint())
			}
			return [][]byte{b}
		}
		for i := 0; i < f.Len(); i++ {
			e := f.Index(i)
			b := make([]byte, e.Len())
			for j := range b {
				b[j] = byte(e.Index(j).Uint())
			}
			out = append(out, b)
		}
	}
	return out
}

func otSetup(r *vk.Rand) (*ot.CorreOTSendSetup, *ot.CorreOTReceiveSetup, error) {
	h := hash.New(hash.BytesWithDomain{TheDomain: "c13", Bytes: r.Bytes(8)})
	sender := ot.NewCorreOTSetupSender(nil, h.Clone())
	receiver := ot.NewCorreOTSetupReceiver(nil, h.Clone(), group)
	m1 := receiver.Round1()
	s1, err := sender.Round1(m1)
	if err != nil {
		return nil, nil, err
	}
	m2, err := receiver.Round2(s1)
	if err != nil {
		return nil, nil, err
	}
	s2 := sender.Round2(m2)
	m3, rs, err := receiver.Round3(s2)
	if err != nil {
		return nil, nil, err
	}
	ss, err := sender.Round3(m3)
	if err != nil {
		return nil, nil, err
	}
	return ss, rs, nil
}

// choiceVec returns the vector as the front part of a larger buffer whose tail is a sentinel pattern (callers pass
// sub-slices of their own buffers; a callee must neither change the vector nor write behind it).
func choiceVec(r *vk.Rand, class string, n int) []byte {
	buf := make([]byte, n+96)
	for i := n; i < len(buf); i++ {
		buf[i] = 0xA5
	}
	c := buf[:n]
	switch class {
	case "all0":
	case "all1":
		for i := range c {
			c[i] = 0xff
		}
	case "alt":
		for i := range c {
			c[i] = 0xaa
		}
	case "alt2":
		for i := range c {
			c[i] = 0x01
		}
	default:
		copy(c, r.Bytes(n))
	}
	return c
}

var c13Classes = []string{"all0", "all1", "alt", "alt2", "random"}

func c13Cases(env vk.Env) []vk.Case {
	var cs []vk.Case
	for i := 0; i < env.Pick(6, 240); i++ {
		i := i
		cs = append(cs, vk.Case{ID: fmt.Sprintf("layers/%d", i), Run: func(t *vk.T) { c13Layers(t, i) }})
		cs = append(cs, vk.Case{ID: fmt.Sprintf("multiply/%d", i), Run: func(t *vk.T) { c13Multiply(t, i, env.Pick(30, 50)) }})
		cs = append(cs, vk.Case{ID: fmt.Sprintf("faults-online/%d", i), Run: func(t *vk.T) { c13FaultsOnline(t, i, env.Pick(60, 200)) }})
		cs = append(cs, vk.Case{ID: fmt.Sprintf("faults-setup/%d", i), Run: func(t *vk.T) { c13FaultsSetup(t, i, env.Pick(10, 40)) }})
		cs = append(cs, vk.Case{ID: fmt.Sprintf("concurrent/%d", i), Run: func(t *vk.T) { c13Concurrent(t, i) }})
	}
	return cs
}

func c13Layers(t *vk.T, i int) {
	r := t.Rng
	// random OT, both choices
	for _, ch := range []bool{false, true} {
		h := hash.New(hash.BytesWithDomain{TheDomain: "rot", Bytes: r.Bytes(8)})
		nonce := r.Bytes(32)
		ms, ss := ot.RandomOTSetupSend(h.Clone(), group)
		rs, err := ot.RandomOTSetupReceive(h.Clone(), ms)
		if err != nil {
			t.Violation("randomOT|setup-error", "%v", err)
			continue
		}
		c := saferith.Choice(0)
		if ch {
			c = 1
		}
		rcv := ot.NewRandomOTReceiver(nonce, rs, c)
		snd := ot.NewRandomOTSender(nonce, ss)
		r1, e1 := rcv.Round1()
		s1, e2 := snd.Round1(&r1)
		if e1 != nil || e2 != nil {
			t.Violation("randomOT|honest-error", "%v %v", e1, e2)
			continue
		}
		r2 := rcv.Round2(&s1)
		s2, res, e3 := snd.Round2(&r2)
		if e3 != nil {
			t.Violation("randomOT|honest-error", "%v", e3)
			continue
		}
		got, e4 := rcv.Round3(&s2)
		if e4 != nil {
			t.Violation("randomOT|honest-error", "%v", e4)
			continue
		}
		t.Obs("evaluations", 1)
		t.Distinct("randomOT|choice=%v", ch)
		want, other := res.Rand0[:], res.Rand1[:]
		if ch {
			want, other = other, want
		}
		if !bytes.Equal(got[:], want) {
			t.Violation(fmt.Sprintf("randomOT|wrong-pad|choice=%v", ch), "receiver pad is not the chosen sender pad")
		}
		if bytes.Equal(got[:], other) || bytes.Equal(want, other) {
			t.Violation("randomOT|pads-equal", "the two sender pads coincide / receiver learned the other pad")
		}
	}
	ss, rs, err := otSetup(r)
	if err != nil {
		t.Violation("correOT|setup-error", "%v", err)
		return
	}
	// base correlation
	delta := fieldRows(ss, "_Delta")[0]
	kd := fieldRows(ss, "_K_Delta")
	k0 := fieldRows(rs, "_K_0")
	k1 := fieldRows(rs, "_K_1")
	for j := 0; j < 128; j++ {
		want := k0[j]
		if otBit(j, delta) == 1 {
			want = k1[j]
		}
		if !bytes.Equal(kd[j], want) || bytes.Equal(k0[j], k1[j]) {
			t.Violation("correOT-setup|base-correlation", "K_Delta[%d] is not K_{Delta_%d}[%d]", j, j, j)
			break
		}
	}
	t.Obs("evaluations", 1)
	t.Distinct("correOT-setup|base-correlation")
	ctx := hash.New(hash.BytesWithDomain{TheDomain: "ctx", Bytes: r.Bytes(4)})
	for ci, class := range c13Classes {
		sizes := []int{16, 11, 1, 40}
		if class == "random" && i%3 == 0 {
			sizes = append(sizes, 8200) // 65600 transfers: beyond 2^16 rows
		}
		for _, nbytes := range sizes {
			_ = ctx.WriteAny([]byte{byte(ci), byte(nbytes)})
			choices := choiceVec(r, class, nbytes)
			saved := append([]byte{}, choices...)
			untouched := func(after string) bool {
				full := choices[:cap(choices)]
				ok := bytes.Equal(full[:nbytes], saved)
				for _, b := range full[nbytes:] {
					if b != 0xA5 {
						ok = false
					}
				}
				if !ok {
					t.Violation("choices|caller-buffer-modified|"+after, "after %s the caller's choice vector (or the bytes of the caller's buffer behind it) changed (batch %d, class %s)", after, 8*nbytes, class)
				}
				return ok
			}
			// correlated
			msg, rres := ot.CorreOTReceive(ctx.Clone(), rs, choices)
			sres, err := ot.CorreOTSend(ctx.Clone(), ss, 8*nbytes, msg)
			if err != nil {
				t.Violation("correOT|honest-error", "%v", err)
				continue
			}
			T := fieldRows(rres, "_T")
			Q := fieldRows(sres, "_Q")
			t.Obs("evaluations", 1)
			t.Distinct("correOT|%s|batch=%d", class, 8*nbytes)
			for j := 0; j < 8*nbytes; j++ {
				exp := append([]byte{}, T[j]...)
				if otBit(j, choices) == 1 {
					for k := range exp {
						exp[k] ^= delta[k]
					}
				}
				if !bytes.Equal(exp, Q[j]) {
					t.Violation("correOT|relation|"+class, "T[%d] xor Q[%d] != choice*Delta (batch %d, class %s)", j, j, 8*nbytes, class)
					break
				}
			}
			if !untouched("CorreOTReceive") {
				continue
			}
			// extended
			emsg, eres := ot.ExtendedOTReceive(ctx.Clone(), rs, choices)
			if !untouched("ExtendedOTReceive") {
				continue
			}
			esres, err := ot.ExtendedOTSend(ctx.Clone(), ss, 8*nbytes, emsg)
			if err != nil {
				t.Violation("extendedOT|honest-error|"+class, "batch %d: %v", 8*nbytes, err)
				continue
			}
			V0, V1, VC := fieldRows(esres, "_V0"), fieldRows(esres, "_V1"), fieldRows(eres, "_VChoices")
			t.Obs("evaluations", 1)
			t.Distinct("extendedOT|%s|batch=%d", class, 8*nbytes)
			for j := 0; j < 8*nbytes; j++ {
				w, o := V0[j], V1[j]
				if otBit(j, choices) == 1 {
					w, o = o, w
				}
				if !bytes.Equal(VC[j], w) || bytes.Equal(VC[j], o) {
					t.Violation("extendedOT|relation|"+class, "V_choice[%d] is not the chosen sender pad (batch %d)", j, 8*nbytes)
					break
				}
			}
			// additive
			alpha := [2]curve.Scalar{LibScalar(randScalarBig(r)), LibScalar(randScalarBig(r))}
			if class == "all0" {
				alpha[0] = LibScalar(big.NewInt(0))
				alpha[1] = LibScalar(new(big.Int).Sub(ref.Q, big.NewInt(1)))
			}
			as := ot.NewAdditiveOTSender(ctx.Clone(), ss, 8*nbytes, alpha)
			ar := ot.NewAdditiveOTReceiver(ctx.Clone(), rs, group, choices)
			am := ar.Round1()
			if !untouched("AdditiveOTReceiver.Round1") {
				continue
			}
			asm, asres, err := as.Round1(am)
			if err != nil {
				t.Violation("additiveOT|honest-error|"+class, "%v", err)
				continue
			}
			arres, err := ar.Round2(asm)
			if err != nil {
				t.Violation("additiveOT|honest-error|"+class, "%v", err)
				continue
			}
			t.Obs("evaluations", 1)
			t.Distinct("additiveOT|%s|batch=%d", class, 8*nbytes)
			for j := 0; j < 8*nbytes; j++ {
				for lane := 0; lane < 2; lane++ {
					sum := new(big.Int).Add(IntOf(asres[j][lane]), IntOf(arres[j][lane]))
					sum.Mod(sum, ref.Q)
					want := big.NewInt(0)
					if otBit(j, choices) == 1 {
						want = IntOf(alpha[lane])
					}
					if sum.Cmp(want) != 0 {
						t.Violation("additiveOT|relation|"+class, "recv+send != choice*alpha at index %d lane %d (batch %d)", j, lane, 8*nbytes)
						j = 1 << 30
						break
					}
				}
			}
		}
	}
	if i == 0 {
		t.Sample(map[string]any{"layers": "random/correlated/extended/additive", "choice_classes": c13Classes, "batches_bits": []int{128, 88, 8, 320}})
	}
}

// c13Concurrent: several honest multiplications overlapping in time in one process (one setup reused under distinct
// context hashes, and independent setups): every one must succeed with a correct product.
func c13Concurrent(t *vk.T, i int) {
	r := t.Rng
	ss, rs, err := otSetup(r)
	if err != nil {
		t.Violation("multiply|setup-error", "%v", err)
		return
	}
	type res struct {
		ok  bool
		err error
		pnk string
	}
	workers, per := 8, 5
	out := make([]res, workers*per)
	done := make(chan struct{})
	seeds := make([]uint64, workers)
	for w := range seeds {
		seeds[w] = r.U64()
	}
	for w := 0; w < workers; w++ {
		go func(w int) {
			defer func() { done <- struct{}{} }()
			rr := vk.NewRand(seeds[w])
			mySS, myRS := ss, rs
			if w%2 == 1 { // odd workers use their own setup
				var e error
				if mySS, myRS, e = otSetup(rr); e != nil {
					out[w*per] = res{err: e}
					return
				}
			}
			for k := 0; k < per; k++ {
				ctx := hash.New(hash.BytesWithDomain{TheDomain: "conc", Bytes: []byte{byte(w), byte(k), byte(i)}})
				var o res
				if p, fr, txt := vk.Guard(func() { o.ok, o.err = runMul(ctx, mySS, myRS, randScalarBig(rr), randScalarBig(rr), nil, nil) }); p {
					o.pnk = fr + ": " + txt
				}
				out[w*per+k] = o
			}
		}(w)
	}
	for w := 0; w < workers; w++ {
		<-done
	}
	for _, o := range out {
		t.Obs("evaluations", 1)
		switch {
		case o.pnk != "":
			t.Violation("multiply|concurrent-honest-panic", "an honest multiplication overlapping with others panicked: %s", o.pnk)
		case o.err != nil:
			t.Violation("multiply|concurrent-honest-error", "an honest multiplication overlapping with others failed: %v", o.err)
		case !o.ok:
			t.Violation("multiply|concurrent-wrong-product", "an honest multiplication overlapping with others returned shares that do not add up to the product")
		}
	}
	t.Distinct("multiply|concurrent|%d-goroutines|shared-and-own-setups|%d", workers, i%4)
	if i == 0 {
		t.Sample(map[string]any{"layer": "multiply (overlapping sessions)", "goroutines": workers, "multiplications_each": per})
	}
}

func c13Lattice(r *vk.Rand) (map[string]*big.Int, []string) {
	one := big.NewInt(1)
	m := map[string]*big.Int{"0": big.NewInt(0), "1": one, "q-1": new(big.Int).Sub(ref.Q, one), "2^k": new(big.Int).Lsh(one, uint(r.Intn(256))), "2^255": new(big.Int).Lsh(one, 255), "random": randScalarBig(r), "q-2^k": new(big.Int).Sub(ref.Q, new(big.Int).Lsh(one, uint(r.Intn(200))))}
	return m, []string{"0", "1", "q-1", "2^k", "2^255", "random", "q-2^k"}
}

func runMul(ctx *hash.Hash, ss *ot.CorreOTSendSetup, rs *ot.CorreOTReceiveSetup, a, b *big.Int, tamperR func(*ot.MultiplyReceiveRound1Message), tamperS func(*ot.MultiplySendRound1Message)) (prodOK bool, err error) {
	sender := ot.NewMultiplySender(ctx.Clone(), ss, LibScalar(a))
	receiver, err := ot.NewMultiplyReceiver(ctx.Clone(), rs, LibScalar(b))
	if err != nil {
		return false, err
	}
	m1 := receiver.Round1()
	if tamperR != nil {
		tamperR(m1)
	}
	s1, shareA, err := sender.Round1(m1)
	if err != nil {
		return false, err
	}
	if tamperS != nil {
		tamperS(s1)
	}
	shareB, err := receiver.Round2(s1)
	if err != nil {
		return false, err
	}
	sum := new(big.Int).Add(IntOf(shareA), IntOf(shareB))
	sum.Mod(sum, ref.Q)
	want := new(big.Int).Mul(a, b)
	want.Mod(want, ref.Q)
	return sum.Cmp(want) == 0, nil
}

func c13Multiply(t *vk.T, i int, reuse int) {
	r := t.Rng
	ss, rs, err := otSetup(r)
	if err != nil {
		t.Violation("multiply|setup-error", "%v", err)
		return
	}
	lat, names := c13Lattice(r)
	ctx := hash.New(hash.BytesWithDomain{TheDomain: "mul", Bytes: r.Bytes(4)})
	n := 0
	for ai, an := range names {
		for bi, bn := range names {
			if n >= reuse {
				break
			}
			if (ai+bi+i)%2 == 1 && n > 10 {
				continue
			}
			n++
			_ = ctx.WriteAny([]byte{byte(n)})
			ok, err := runMul(ctx, ss, rs, lat[an], lat[bn], nil, nil)
			t.Obs("evaluations", 1)
			t.Distinct("multiply|a=%s|b=%s", an, bn)
			if err != nil {
				t.Violation("multiply|honest-error|a="+an+"|b="+bn, "use #%d of the setup: %v", n, err)
			} else if !ok {
				t.Violation("multiply|wrong-product|a="+an+"|b="+bn, "shares do not add up to a*b (use #%d of the setup)", n)
			}
		}
	}
	t.Obs("max:setup_reuse", int64(n))
	if i == 0 {
		t.Sample(map[string]any{"layer": "multiply", "lattice": names, "setup_reused": n})
	}
}

// site is a mutable leaf inside a message.
type site struct {
	path  string
	kinds []string
	apply func(kind string, r *vk.Rand)
}

var scalarT = reflect.TypeOf((*curve.Scalar)(nil)).Elem()
var pointT = reflect.TypeOf((*curve.Point)(nil)).Elem()

func collectSites(v reflect.Value, path string, out *[]site, r *vk.Rand) {
	switch v.Kind() {
	case reflect.Ptr:
		if !v.IsNil() {
			collectSites(v.Elem(), path, out, r)
		}
	case reflect.Interface:
		if v.IsNil() {
			return
		}
		if v.Type() == scalarT {
			vv := v
			*out = append(*out, site{path, []string{"zero", "plus1", "random"}, func(kind string, r *vk.Rand) {
				cur := IntOf(vv.Interface().(curve.Scalar))
				switch kind {
				case "zero":
					vv.Set(reflect.ValueOf(LibScalar(big.NewInt(0))))
				case "plus1":
					vv.Set(reflect.ValueOf(LibScalar(cur.Add(cur, big.NewInt(1)))))
				default:
					vv.Set(reflect.ValueOf(LibScalar(randScalarBig(r))))
				}
			}})
		} else if v.Type() == pointT {
			vv := v
			*out = append(*out, site{path, []string{"negate", "generator", "random"}, func(kind string, r *vk.Rand) {
				switch kind {
				case "negate":
					vv.Set(reflect.ValueOf(vv.Interface().(curve.Point).Negate()))
				case "generator":
					vv.Set(reflect.ValueOf(group.NewBasePoint()))
				default:
					vv.Set(reflect.ValueOf(LibScalar(randScalarBig(r)).ActOnBase()))
				}
			}})
		}
	case reflect.Struct:
		for i := 0; i < v.NumField(); i++ {
			if !v.Type().Field(i).IsExported() {
				continue
			}
			collectSites(v.Field(i), path+"."+v.Type().Field(i).Name, out, r)
		}
	case reflect.Slice, reflect.Array:
		ek := v.Type().Elem().Kind()
		if ek == reflect.Uint8 || ek == reflect.Uint64 {
			if v.Len() == 0 {
				return
			}
			vv := v
			kinds := []string{"bitflip", "zero"}
			if v.Kind() == reflect.Slice && v.CanSet() {
				kinds = append(kinds, "truncate")
			}
			*out = append(*out, site{path, kinds, func(kind string, r *vk.Rand) {
				switch kind {
				case "bitflip":
					e := vv.Index(r.Intn(vv.Len()))
					e.SetUint(e.Uint() ^ (1 << uint(r.Intn(8))))
				case "zero":
					for i := 0; i < vv.Len(); i++ {
						vv.Index(i).SetUint(0)
					}
				case "truncate":
					vv.Set(vv.Slice(0, vv.Len()-1))
				}
			}})
			return
		}
		n := v.Len()
		if n == 0 {
			return
		}
		// sample up to 3 elements, plus a swap of two elements
		idx := map[int]bool{0: true, n - 1: true, r.Intn(n): true}
		for i := range idx {
			collectSites(v.Index(i), fmt.Sprintf("%s[%s]", path, posClass(i, n)), out, r)
		}
		if n >= 2 {
			vv := v
			*out = append(*out, site{path, []string{"swap-rows"}, func(kind string, r *vk.Rand) {
				i, j := r.Intn(n), r.Intn(n-1)
				if j >= i {
					j++
				}
				a := reflect.New(vv.Type().Elem()).Elem()
				a.Set(vv.Index(i))
				vv.Index(i).Set(vv.Index(j))
				vv.Index(j).Set(a)
			}})
		}
	}
}

func posClass(i, n int) string {
	switch {
	case i == 0:
		return "first"
	case i == n-1:
		return "last"
	}
	return "mid"
}

func sitesOf(msg interface{}, r *vk.Rand) []site {
	var out []site
	collectSites(reflect.ValueOf(msg), "", &out, r)
	return out
}

func c13FaultsOnline(t *vk.T, i int, budget int) {
	r := t.Rng
	ss, rs, err := otSetup(r)
	if err != nil {
		t.Violation("multiply|setup-error", "%v", err)
		return
	}
	ctx := hash.New(hash.BytesWithDomain{TheDomain: "mulf", Bytes: r.Bytes(4)})
	// learn the sites from an honest run
	var rSites, sSites []site
	runMul(ctx, ss, rs, big.NewInt(5), big.NewInt(7), func(m *ot.MultiplyReceiveRound1Message) { rSites = sitesOf(m, r) }, func(m *ot.MultiplySendRound1Message) { sSites = sitesOf(m, r) })
	type job struct {
		who  string
		idx  int
		kind string
		path string
	}
	var jobs []job
	for k, s := range rSites {
		for _, kd := range s.kinds {
			jobs = append(jobs, job{"receiver-msg", k, kd, s.path})
		}
	}
	for k, s := range sSites {
		for _, kd := range s.kinds {
			jobs = append(jobs, job{"sender-msg", k, kd, s.path})
		}
	}
	t.Obs("fault_sites", int64(len(jobs)))
	order := r.Perm(len(jobs))
	for c := 0; c < budget && c < len(order); c++ {
		j := jobs[order[c]]
		_ = ctx.WriteAny([]byte{byte(c), byte(c >> 8)})
		a, b := randScalarBig(r), randScalarBig(r)
		var tr func(*ot.MultiplyReceiveRound1Message)
		var ts func(*ot.MultiplySendRound1Message)
		// sites must be re-collected on the fresh message with the same traversal order
		rr := vk.NewRand(uint64(i)*7919 + 13)
		if j.who == "receiver-msg" {
			tr = func(m *ot.MultiplyReceiveRound1Message) {
				s := sitesOf(m, rr)
				if j.idx < len(s) {
					s[j.idx].apply(j.kind, r)
				}
			}
		} else {
			ts = func(m *ot.MultiplySendRound1Message) {
				s := sitesOf(m, rr)
				if j.idx < len(s) {
					s[j.idx].apply(j.kind, r)
				}
			}
		}
		var ok bool
		var err error
		if p, fr, txt := vk.Guard(func() { ok, err = runMul(ctx, ss, rs, a, b, tr, ts) }); p {
			t.Obs("panics_under_tampering", 1)
			t.Distinct("fault|%s|%s|%s|panic", j.who, j.path, j.kind)
			// neither "an error on the checking side" nor "a still-correct product"
			t.Violation("multiply|tampered-panic|"+j.who+"|"+j.path+"|"+j.kind+"|"+fr, "altering %s field %s (%s) made the multiplication panic in %s: %s", j.who, j.path, j.kind, fr, truncStr(txt, 160))
			continue
		}
		t.Obs("evaluations", 1)
		switch {
		case err != nil:
			t.Obs("faults_detected", 1)
			t.Distinct("fault|%s|%s|%s|error", j.who, j.path, j.kind)
		case ok:
			t.Obs("faults_harmless", 1)
			t.Distinct("fault|%s|%s|%s|still-correct", j.who, j.path, j.kind)
		default:
			t.Violation("multiply|tampered-wrong-product|"+j.who+"|"+j.path+"|"+j.kind, "altering %s field %s (%s) gave no error and a wrong product", j.who, j.path, j.kind)
		}
	}
	if i == 0 {
		t.Sample(map[string]any{"layer": "multiply faults", "receiver_msg_sites": len(rSites), "sender_msg_sites": len(sSites), "example_path": jobs[0].path, "example_kind": jobs[0].kind})
	}
}

func c13FaultsSetup(t *vk.T, i int, budget int) {
	r := t.Rng
	for c := 0; c < budget; c++ {
		h := hash.New(hash.BytesWithDomain{TheDomain: "c13s", Bytes: r.Bytes(8)})
		sender := ot.NewCorreOTSetupSender(nil, h.Clone())
		receiver := ot.NewCorreOTSetupReceiver(nil, h.Clone(), group)
		stage := c % 5
		rr := vk.NewRand(uint64(c)*31 + uint64(i))
		desc := ""
		tamper := func(stageNo int, msg interface{}) {
			if stageNo != stage {
				return
			}
			s := sitesOf(msg, rr)
			if len(s) == 0 {
				return
			}
			k := r.Intn(len(s))
			kd := s[k].kinds[r.Intn(len(s[k].kinds))]
			desc = fmt.Sprintf("setup-msg%d|%s|%s", stageNo, s[k].path, kd)
			s[k].apply(kd, r)
		}
		var ss *ot.CorreOTSendSetup
		var rs *ot.CorreOTReceiveSetup
		var err error
		pnk, _, _ := vk.Guard(func() {
			m1 := receiver.Round1()
			tamper(0, m1)
			var s1 *ot.CorreOTSetupSendRound1Message
			if s1, err = sender.Round1(m1); err != nil {
				return
			}
			tamper(1, s1)
			var m2 *ot.CorreOTSetupReceiveRound2Message
			if m2, err = receiver.Round2(s1); err != nil {
				return
			}
			tamper(2, m2)
			s2 := sender.Round2(m2)
			tamper(3, s2)
			var m3 *ot.CorreOTSetupReceiveRound3Message
			if m3, rs, err = receiver.Round3(s2); err != nil {
				return
			}
			tamper(4, m3)
			ss, err = sender.Round3(m3)
		})
		if desc == "" {
			continue
		}
		t.Obs("evaluations", 1)
		if pnk {
			t.Obs("panics_under_tampering", 1)
			t.Distinct("setup-fault|%s|panic", desc)
			continue
		}
		if err != nil {
			t.Obs("faults_detected", 1)
			t.Distinct("setup-fault|%s|error", desc)
			continue
		}
		// setup completed despite the alteration: a multiplication with it must be error-or-correct
		ctx := hash.New(hash.BytesWithDomain{TheDomain: "after", Bytes: r.Bytes(4)})
		var ok bool
		var merr error
		if p, _, _ := vk.Guard(func() { ok, merr = runMul(ctx, ss, rs, randScalarBig(r), randScalarBig(r), nil, nil) }); p {
			t.Obs("panics_under_tampering", 1)
			continue
		}
		switch {
		case merr != nil:
			t.Obs("faults_detected_later", 1)
			t.Distinct("setup-fault|%s|later-error", desc)
		case ok:
			t.Obs("faults_harmless", 1)
			t.Distinct("setup-fault|%s|still-correct", desc)
		default:
			t.Violation("multiply|tampered-setup-wrong-product|"+desc, "altered setup message (%s) was accepted by both sides and a later multiplication returned a wrong product without error", desc)
		}
	}
	if i == 0 {
		t.Sample(map[string]any{"layer": "setup faults", "stages": 5, "runs": budget})
	}
}
