package checks

import (
	"fmt"
	"math"
	"reflect"
	"strings"

	"github.com/taurusgroup/multi-party-sig/pkg/ecdsa"
	"github.com/taurusgroup/multi-party-sig/pkg/math/curve"
	"github.com/taurusgroup/multi-party-sig/pkg/party"
	"github.com/taurusgroup/multi-party-sig/pkg/protocol"
	"github.com/taurusgroup/multi-party-sig/protocols/cmp"
	"github.com/taurusgroup/multi-party-sig/protocols/cmp/presign"
	"github.com/taurusgroup/multi-party-sig/protocols/doerner"
	"github.com/taurusgroup/multi-party-sig/protocols/frost"
	"github.com/taurusgroup/multi-party-sig/verif/fx"
	"github.com/taurusgroup/multi-party-sig/verif/ref"
	"github.com/taurusgroup/multi-party-sig/verif/sim"
	"github.com/taurusgroup/multi-party-sig/verif/vk"
)

func init() {
	vk.Register(&vk.Check{
		ID:    "C20",
		Level: "fault_enumeration",
		Rule: "every start function (cmp Keygen/Refresh/Sign/Presign/PresignOnline, presign full, frost Keygen/KeygenTaproot/Refresh/RefreshTaproot/Sign/SignTaproot, doerner Keygen/Refresh x2/Sign x2) is called with single invalid parameters from a lattice (threshold around -1, n, MaxUint32, MinInt; empty / duplicated / own-id-missing / foreign identifiers; too few or foreign signers; nil / empty message; nil, empty or field-stripped key material; broken presignatures) and with seeded pairs of them; constructing the handler must not panic; if it succeeds the session is run with valid peers: a panic, a wrong result, or honest peers left unfinished is a violation, a correct completion means the parameter was harmless; valid controls must start; " +
			"distinct non-trivial = distinct (start function, parameter, bad value) constructions judged plus distinct follow-up sessions run",
		MinDistinct:  80,
		Assumptions:  []string{"a parameter whose session completes with a correct result is not 'invalid' for that protocol (the statement speaks of parameters that cannot lead to a valid run)"},
		Cases:        c20Cases,
		CaseTimeoutS: 2400,
	})
}

// c20Scenario: how every party starts, which key/message judge the result.
type c20Scenario struct {
	fn, param, value string
	two              bool
	leaders          map[party.ID]bool
	ids              []party.ID
	start            map[party.ID]protocol.StartFunc
	subjects         map[party.ID]bool // parties that were given the invalid parameter
	control          bool              // a valid control: must start and complete
	expectKey        *ref.Pt
	msg              []byte
	keygenLike       bool
}

// c20Pairs: two invalid parameters at once (construction only): never a panic, never an accepted session.
func c20Pairs(t *vk.T, rep int) {
	r := t.Rng
	ids := fx.IDs(r, rep%3, 3)
	fm, err := fx.NewFrostMat(r, ids, 1, fx.Opt{})
	if err != nil {
		t.Inconclusive("keygen: %v", err)
		return
	}
	fx.InstallPrimeHook()
	cm := fx.NewCMPMatDealt(ids, 1)
	msg := r.Bytes(32)
	badLists := map[string][]party.ID{"empty": {}, "own-missing": ids[1:], "own-duplicated": append([]party.ID{ids[0]}, ids...), "contains-empty-id": append(append([]party.ID{}, ids...), "")}
	badThr := map[string]int{"-1": -1, "n": 3, "MaxUint32+1": math.MaxUint32 + 1, "MinInt": math.MinInt}
	badSigners := map[string][]party.ID{"too-few": ids[:1], "without-self": ids[1:], "foreign": {ids[0], ids[1], "zz"}, "duplicated": {ids[0], ids[1], ids[1]}, "nil": nil}
	badMsgs := map[string][]byte{"nil": nil, "empty": {}}
	try := func(fn, what string, mk func() (protocol.Handler, error)) {
		var h protocol.Handler
		var err error
		pnk, fr, txt := vk.Guard(func() { h, err = mk() })
		t.Obs("evaluations", 1)
		t.Distinct("pair|%s|%s", fn, what)
		switch {
		case pnk:
			t.Violation(fn+"|pair|"+what+"|construction-panic|"+fr, "%s with %s panicked: %s", fn, what, txt)
		case err == nil && h != nil:
			t.Violation(fn+"|pair|"+what+"|accepted", "%s with two invalid parameters (%s) was accepted", fn, what)
		default:
			t.Obs("refused_at_start", 1)
		}
	}
	for ln, l := range badLists {
		for tn, th := range badThr {
			l, th := l, th
			try("frost.Keygen", "participants="+ln+"+threshold="+tn, func() (protocol.Handler, error) {
				return protocol.NewMultiHandler(frost.Keygen(group, ids[0], l, th), nil)
			})
			try("frost.KeygenTaproot", "participants="+ln+"+threshold="+tn, func() (protocol.Handler, error) {
				return protocol.NewMultiHandler(frost.KeygenTaproot(ids[0], l, th), nil)
			})
			try("cmp.Keygen", "participants="+ln+"+threshold="+tn, func() (protocol.Handler, error) {
				return protocol.NewMultiHandler(cmp.Keygen(group, ids[0], l, th, nil), nil)
			})
		}
	}
	for sn, S := range badSigners {
		for mn, m := range badMsgs {
			S, m := S, m
			try("frost.Sign", "signers="+sn+"+message="+mn, func() (protocol.Handler, error) {
				return protocol.NewMultiHandler(frost.Sign(fm.Cfgs[ids[0]], S, m), nil)
			})
			try("cmp.Sign", "signers="+sn+"+message="+mn, func() (protocol.Handler, error) {
				return protocol.NewMultiHandler(cmp.Sign(cm.Cfgs[ids[0]], S, m, nil), nil)
			})
			try("presign.StartPresign(full)", "signers="+sn+"+message="+mn, func() (protocol.Handler, error) {
				if len(m) == 0 {
					return nil, fmt.Errorf("an empty message selects the offline variant (not an invalid pair)")
				}
				return protocol.NewMultiHandler(presign.StartPresign(cm.Cfgs[ids[0]], S, m, nil), nil)
			})
		}
		S := S
		try("frost.Sign", "signers="+sn+"+config=nil", func() (protocol.Handler, error) { return protocol.NewMultiHandler(frost.Sign(nil, S, msg), nil) })
		try("cmp.Sign", "signers="+sn+"+config=nil", func() (protocol.Handler, error) { return protocol.NewMultiHandler(cmp.Sign(nil, S, msg, nil), nil) })
		try("cmp.Presign", "signers="+sn+"+config=empty", func() (protocol.Handler, error) {
			return protocol.NewMultiHandler(cmp.Presign(cmp.EmptyConfig(group), S, nil), nil)
		})
	}
	if rep == 0 {
		t.Sample(map[string]any{"kind": "pairs of invalid parameters", "lists": len(badLists), "thresholds": len(badThr), "signer_sets": len(badSigners)})
	}
}

func c20Cases(env vk.Env) []vk.Case {
	var cs []vk.Case
	for i := 0; i < env.Pick(1, 6); i++ {
		i := i
		cs = append(cs, vk.Case{ID: fmt.Sprintf("pairs/%d", i), Run: func(t *vk.T) { c20Pairs(t, i) }})
	}
	for _, fam := range []string{"frost-keygen", "frost-sign", "frost-refresh", "doerner", "cmp-keygen", "cmp-sign", "cmp-presign", "cmp-online", "cmp-refresh"} {
		reps := env.Pick(1, 9)
		for i := 0; i < reps; i++ {
			fam, i := fam, i
			cs = append(cs, vk.Case{ID: fmt.Sprintf("%s/%d", fam, i), Run: func(t *vk.T) { c20Family(t, fam, i, env) }})
		}
	}
	return cs
}

var c20Thresholds = []struct {
	name string
	v    func(n int) int
}{
	{"-1", func(n int) int { return -1 }}, {"n", func(n int) int { return n }}, {"n+1", func(n int) int { return n + 1 }},
	{"MaxUint32", func(n int) int { return math.MaxUint32 }}, {"MaxUint32+1", func(n int) int { return math.MaxUint32 + 1 }},
	{"MinInt", func(n int) int { return math.MinInt }}, {"MaxInt", func(n int) int { return math.MaxInt }},
}

func c20Family(t *vk.T, fam string, rep int, env vk.Env) {
	r := t.Rng
	ids := fx.IDs(r, rep%3, 3)
	var scs []*c20Scenario
	add := func(s *c20Scenario) {
		if s.ids == nil {
			s.ids = ids
		}
		scs = append(scs, s)
	}
	all := func(f func(id party.ID) protocol.StartFunc, who []party.ID) map[party.ID]protocol.StartFunc {
		m := map[party.ID]protocol.StartFunc{}
		for _, id := range who {
			m[id] = f(id)
		}
		return m
	}
	subj := func(xs ...party.ID) map[party.ID]bool {
		m := map[party.ID]bool{}
		for _, x := range xs {
			m[x] = true
		}
		return m
	}
	allSubj := func(who []party.ID) map[party.ID]bool { return subj(who...) }
	idLists := func(base []party.ID) []struct {
		name string
		ids  []party.ID
		ctl  bool
	} {
		return []struct {
			name string
			ids  []party.ID
			ctl  bool
		}{
			{"empty", []party.ID{}, false},
			{"nil", nil, false},
			{"first-party-missing", base[1:], false},
			{"own-duplicated", append([]party.ID{base[0]}, base...), false},
			{"other-duplicated", append(append([]party.ID{}, base...), base[len(base)-1]), false},
			{"contains-empty-id", append(append([]party.ID{}, base...), ""), false},
			{"unsorted(valid)", []party.ID{base[2], base[0], base[1]}, true},
		}
	}
	switch fam {
	case "frost-keygen":
		for _, tap := range []bool{false, true} {
			fn := "frost.Keygen"
			mk := func(self party.ID, p []party.ID, th int) protocol.StartFunc {
				if tap {
					return frost.KeygenTaproot(self, p, th)
				}
				return frost.Keygen(group, self, p, th)
			}
			if tap {
				fn = "frost.KeygenTaproot"
			}
			for _, th := range c20Thresholds {
				th := th
				add(&c20Scenario{fn: fn, param: "threshold", value: th.name, keygenLike: true, subjects: allSubj(ids),
					start: all(func(id party.ID) protocol.StartFunc { return mk(id, ids, th.v(len(ids))) }, ids)})
			}
			for _, v := range []int{0, 1, 2} {
				v := v
				add(&c20Scenario{fn: fn, param: "threshold", value: fmt.Sprintf("%d(valid)", v), control: true, keygenLike: true,
					start: all(func(id party.ID) protocol.StartFunc { return mk(id, ids, v) }, ids)})
			}
			for _, l := range idLists(ids) {
				l := l
				// the participant list is a shared parameter: everybody starts with it
				add(&c20Scenario{fn: fn, param: "participants", value: l.name, control: l.ctl, keygenLike: true, subjects: allSubj(ids),
					start: all(func(id party.ID) protocol.StartFunc { return mk(id, l.ids, 1) }, ids)})
			}
			add(&c20Scenario{fn: fn, param: "self", value: "empty-id", keygenLike: true, subjects: subj(ids[0]),
				start: all(func(id party.ID) protocol.StartFunc {
					if id == ids[0] {
						return mk("", ids, 1)
					}
					return mk(id, ids, 1)
				}, ids)})
		}
	case "frost-sign", "frost-refresh":
		fm, err := fx.NewFrostMat(r, ids, 1, fx.Opt{})
		tm, err2 := fx.NewTaprootMat(r, ids, 1, fx.Opt{})
		if err != nil || err2 != nil {
			t.Inconclusive("keygen failed")
			return
		}
		key, tkey := fm.Shares()[0].GroupKey, tm.Shares()[0].GroupKey
		msg := r.Bytes(32)
		for _, tap := range []bool{false, true} {
			tap := tap
			k := &key
			if tap {
				k = &tkey
			}
			if fam == "frost-sign" {
				fn := "frost.Sign"
				if tap {
					fn = "frost.SignTaproot"
				}
				sg := func(id party.ID, S []party.ID, m []byte) protocol.StartFunc {
					if tap {
						return frost.SignTaproot(fx.CloneTaproot(tm.Cfgs[id]), S, m)
					}
					return frost.Sign(fx.CloneFrost(fm.Cfgs[id]), S, m)
				}
				// signers
				foreign := party.ID("zz-not-a-shareholder")
				type sv struct {
					name string
					S    []party.ID
					who  []party.ID
					ctl  bool
				}
				svs := []sv{
					{"t-signers(too-few)", ids[:1], ids[:1], false},
					{"t+1-without-self", ids[1:], ids, false},
					{"contains-non-shareholder", append(append([]party.ID{}, ids[:2]...), foreign), append(append([]party.ID{}, ids[:2]...), foreign), false},
					{"duplicated", []party.ID{ids[0], ids[1], ids[1]}, ids[:2], false},
					{"empty", []party.ID{}, ids[:2], false},
					{"nil", nil, ids[:2], false},
					{"t+1(valid)", ids[:2], ids[:2], true},
					{"all-unsorted(valid)", []party.ID{ids[2], ids[1], ids[0]}, ids, true},
				}
				for _, s := range svs {
					s := s
					sc := &c20Scenario{fn: fn, param: "signers", value: s.name, control: s.ctl, expectKey: k, msg: msg, ids: s.who, subjects: allSubj(s.who), start: map[party.ID]protocol.StartFunc{}}
					for _, id := range s.who {
						id := id
						if id == foreign {
							// the forged participant holds a copy of a shareholder's material under its own name
							if tap {
								c := fx.CloneTaproot(tm.Cfgs[ids[2]])
								c.ID = foreign
								sc.start[id] = frost.SignTaproot(c, s.S, msg)
							} else {
								c := fx.CloneFrost(fm.Cfgs[ids[2]])
								c.ID = foreign
								sc.start[id] = frost.Sign(c, s.S, msg)
							}
							continue
						}
						sc.start[id] = sg(id, s.S, msg)
					}
					add(sc)
				}
				for _, mv := range []struct {
					name string
					m    []byte
				}{{"nil", nil}, {"empty", []byte{}}} {
					mv := mv
					add(&c20Scenario{fn: fn, param: "message", value: mv.name, expectKey: k, msg: mv.m, ids: ids[:2], subjects: allSubj(ids[:2]),
						start: all(func(id party.ID) protocol.StartFunc { return sg(id, ids[:2], mv.m) }, ids[:2])})
				}
				// key material of one party
				badCfg := func(kind string) protocol.StartFunc {
					if tap {
						var c *frost.TaprootConfig
						switch kind {
						case "nil":
						case "zero-object":
							c = &frost.TaprootConfig{}
						case "nil-share":
							c = fx.CloneTaproot(tm.Cfgs[ids[0]])
							c.PrivateShare = nil
						case "nil-table":
							c = fx.CloneTaproot(tm.Cfgs[ids[0]])
							c.VerificationShares = nil
						case "empty-public-key":
							c = fx.CloneTaproot(tm.Cfgs[ids[0]])
							c.PublicKey = nil
						case "threshold=n":
							c = fx.CloneTaproot(tm.Cfgs[ids[0]])
							c.Threshold = 3
						case "threshold=-1":
							c = fx.CloneTaproot(tm.Cfgs[ids[0]])
							c.Threshold = -1
						case "nil-own-table-entry":
							c = fx.CloneTaproot(tm.Cfgs[ids[0]])
							c.VerificationShares[ids[0]] = nil
						case "nil-peer-table-entry":
							c = fx.CloneTaproot(tm.Cfgs[ids[0]])
							c.VerificationShares[ids[1]] = nil
						case "peer-table-entry-missing":
							c = fx.CloneTaproot(tm.Cfgs[ids[0]])
							delete(c.VerificationShares, ids[1])
						}
						return frost.SignTaproot(c, ids[:2], msg)
					}
					var c *frost.Config
					switch kind {
					case "nil":
					case "zero-object":
						c = frost.EmptyConfig(group)
					case "nil-share":
						c = fx.CloneFrost(fm.Cfgs[ids[0]])
						c.PrivateShare = nil
					case "nil-table":
						c = fx.CloneFrost(fm.Cfgs[ids[0]])
						c.VerificationShares = nil
					case "empty-public-key":
						c = fx.CloneFrost(fm.Cfgs[ids[0]])
						c.PublicKey = nil
					case "threshold=n":
						c = fx.CloneFrost(fm.Cfgs[ids[0]])
						c.Threshold = 3
					case "threshold=-1":
						c = fx.CloneFrost(fm.Cfgs[ids[0]])
						c.Threshold = -1
					case "nil-own-table-entry":
						c = fx.CloneFrost(fm.Cfgs[ids[0]])
						c.VerificationShares.Points[ids[0]] = nil
					case "nil-peer-table-entry":
						c = fx.CloneFrost(fm.Cfgs[ids[0]])
						c.VerificationShares.Points[ids[1]] = nil
					case "peer-table-entry-missing":
						c = fx.CloneFrost(fm.Cfgs[ids[0]])
						delete(c.VerificationShares.Points, ids[1])
					}
					return frost.Sign(c, ids[:2], msg)
				}
				for _, kind := range []string{"nil", "zero-object", "nil-share", "nil-table", "empty-public-key", "threshold=n", "threshold=-1", "nil-own-table-entry", "nil-peer-table-entry", "peer-table-entry-missing"} {
					kind := kind
					sc := &c20Scenario{fn: fn, param: "key-material", value: kind, expectKey: k, msg: msg, ids: ids[:2], subjects: subj(ids[0]), start: map[party.ID]protocol.StartFunc{}}
					sc.start[ids[1]] = sg(ids[1], ids[:2], msg)
					func() {
						defer func() {
							if rec := recover(); rec != nil {
								// the start function itself (not even the handler) panicked while being built
								sc.start[ids[0]] = nil
								t.Violation(fn+"|key-material|"+kind+"|panic-building-start-function", "%s(%s config) panicked before a handler could be constructed: %v", fn, kind, rec)
							}
						}()
						sc.start[ids[0]] = badCfg(kind)
					}()
					if sc.start[ids[0]] != nil {
						add(sc)
					}
				}
			} else {
				fn := "frost.Refresh"
				if tap {
					fn = "frost.RefreshTaproot"
				}
				rf := func(id party.ID, p []party.ID) protocol.StartFunc {
					if tap {
						return frost.RefreshTaproot(fx.CloneTaproot(tm.Cfgs[id]), p)
					}
					return frost.Refresh(fx.CloneFrost(fm.Cfgs[id]), p)
				}
				for _, l := range idLists(ids) {
					l := l
					add(&c20Scenario{fn: fn, param: "participants", value: l.name, control: l.ctl, keygenLike: true, expectKey: k, subjects: allSubj(ids),
						start: all(func(id party.ID) protocol.StartFunc { return rf(id, l.ids) }, ids)})
				}
				for _, kind := range []string{"nil", "zero-object"} {
					kind := kind
					sc := &c20Scenario{fn: fn, param: "key-material", value: kind, keygenLike: true, expectKey: k, subjects: subj(ids[0]), start: map[party.ID]protocol.StartFunc{}}
					for _, id := range ids[1:] {
						sc.start[id] = rf(id, ids)
					}
					func() {
						defer func() {
							if rec := recover(); rec != nil {
								t.Violation(fn+"|key-material|"+kind+"|panic-building-start-function", "%s(%s config) panicked before a handler could be constructed: %v", fn, kind, rec)
							}
						}()
						if tap {
							var c *frost.TaprootConfig
							if kind == "zero-object" {
								c = &frost.TaprootConfig{}
							}
							sc.start[ids[0]] = frost.RefreshTaproot(c, ids)
						} else {
							var c *frost.Config
							if kind == "zero-object" {
								c = frost.EmptyConfig(group)
							}
							sc.start[ids[0]] = frost.Refresh(c, ids)
						}
					}()
					if sc.start[ids[0]] != nil {
						add(sc)
					}
				}
			}
		}
	case "doerner":
		dm, err := fx.NewDoernerMat(r, ids[0], ids[1], fx.Opt{})
		if err != nil {
			t.Inconclusive("keygen failed")
			return
		}
		key := dm.Shares()[0].GroupKey
		msg := r.Bytes(32)
		two := []party.ID{ids[0], ids[1]}
		lead := map[party.ID]bool{ids[0]: true, ids[1]: false}
		leadS := map[party.ID]bool{ids[0]: true, ids[1]: true}
		add(&c20Scenario{fn: "doerner.Keygen", param: "ids", value: "valid", control: true, two: true, leaders: lead, ids: two, keygenLike: true,
			start: map[party.ID]protocol.StartFunc{ids[0]: doerner.Keygen(group, true, ids[0], ids[1], nil), ids[1]: doerner.Keygen(group, false, ids[1], ids[0], nil)}})
		// identifiers are shared parameters: both parties start with the same (bad) pair
		add(&c20Scenario{fn: "doerner.Keygen", param: "ids", value: "self=other", two: true, leaders: lead, ids: two, keygenLike: true, subjects: allSubj(two),
			start: map[party.ID]protocol.StartFunc{ids[0]: doerner.Keygen(group, true, ids[0], ids[0], nil), ids[1]: doerner.Keygen(group, false, ids[1], ids[1], nil)}})
		add(&c20Scenario{fn: "doerner.Keygen", param: "ids", value: "empty-peer-id", two: true, leaders: lead, ids: two, keygenLike: true, subjects: allSubj(two),
			start: map[party.ID]protocol.StartFunc{ids[0]: doerner.Keygen(group, true, ids[0], "", nil), ids[1]: doerner.Keygen(group, false, "", ids[0], nil)}})
		sgR := func(c *doerner.ConfigReceiver, self, other party.ID, m []byte) (sf protocol.StartFunc, pan string) {
			defer func() {
				if rec := recover(); rec != nil {
					pan = fmt.Sprint(rec)
				}
			}()
			return doerner.SignReceiver(c, self, other, m, nil), ""
		}
		sgS := func(c *doerner.ConfigSender, self, other party.ID, m []byte) (sf protocol.StartFunc, pan string) {
			defer func() {
				if rec := recover(); rec != nil {
					pan = fmt.Sprint(rec)
				}
			}()
			return doerner.SignSender(c, self, other, m, nil), ""
		}
		goodR, _ := sgR(dm.K.R, ids[0], ids[1], msg)
		goodS, _ := sgS(dm.K.S, ids[1], ids[0], msg)
		add(&c20Scenario{fn: "doerner.Sign", param: "all", value: "valid", control: true, two: true, leaders: leadS, ids: two, expectKey: &key, msg: msg,
			start: map[party.ID]protocol.StartFunc{ids[0]: goodR, ids[1]: goodS}})
		type rv struct {
			name string
			c    *doerner.ConfigReceiver
			self party.ID
			oth  party.ID
			m    []byte
		}
		emptyR := doerner.EmptyConfigReceiver(group)
		noSetup := &doerner.ConfigReceiver{SecretShare: dm.K.R.SecretShare, Public: dm.K.R.Public, ChainKey: dm.K.R.ChainKey}
		for _, v := range []rv{{"nil-config", nil, ids[0], ids[1], msg}, {"empty-config", emptyR, ids[0], ids[1], msg}, {"config-without-ot-setup", noSetup, ids[0], ids[1], msg},
			{"nil-message", dm.K.R, ids[0], ids[1], nil}, {"empty-message", dm.K.R, ids[0], ids[1], []byte{}},
			{"empty-message-with-capacity", dm.K.R, ids[0], ids[1], make([]byte, 0, 32)}, {"empty-slice-of-message", dm.K.R, ids[0], ids[1], msg[:0]}, {"self=other", dm.K.R, ids[0], ids[0], msg}} {
			sf, pan := sgR(v.c, v.self, v.oth, v.m)
			if pan != "" {
				t.Obs("evaluations", 1)
				t.Distinct("doerner.SignReceiver|%s|panic-building-start-function", v.name)
				t.Violation("doerner.SignReceiver|"+v.name+"|panic-building-start-function", "doerner.SignReceiver(%s) panicked before a handler could be constructed: %s", v.name, pan)
				continue
			}
			m := v.m
			peerS, _ := sgS(dm.K.S, ids[1], ids[0], msg)
			if strings.Contains(v.name, "message") {
				peerS, _ = sgS(dm.K.S, ids[1], ids[0], m)
			}
			add(&c20Scenario{fn: "doerner.SignReceiver", param: "parameter", value: v.name, two: true, leaders: leadS, ids: two, expectKey: &key, msg: m, subjects: subj(ids[0]),
				start: map[party.ID]protocol.StartFunc{ids[0]: sf, ids[1]: peerS}})
		}
		emptyS := doerner.EmptyConfigSender(group)
		noSetupS := &doerner.ConfigSender{SecretShare: dm.K.S.SecretShare, Public: dm.K.S.Public, ChainKey: dm.K.S.ChainKey}
		// the sender's lattice mirrors the receiver's: the two start functions validate separately, so a check
		// weakened in one role only (e.g. an empty, non-nil digest) must be seen from that role
		for _, v := range []struct {
			name string
			c    *doerner.ConfigSender
			self party.ID
			oth  party.ID
			m    []byte
		}{{"nil-config", nil, ids[1], ids[0], msg}, {"empty-config", emptyS, ids[1], ids[0], msg}, {"config-without-ot-setup", noSetupS, ids[1], ids[0], msg},
			{"nil-message", dm.K.S, ids[1], ids[0], nil}, {"empty-message", dm.K.S, ids[1], ids[0], []byte{}},
			{"empty-message-with-capacity", dm.K.S, ids[1], ids[0], make([]byte, 0, 32)}, {"empty-slice-of-message", dm.K.S, ids[1], ids[0], msg[:0]},
			{"self=other", dm.K.S, ids[1], ids[1], msg}} {
			sf, pan := sgS(v.c, v.self, v.oth, v.m)
			if pan != "" {
				t.Obs("evaluations", 1)
				t.Distinct("doerner.SignSender|%s|panic-building-start-function", v.name)
				t.Violation("doerner.SignSender|"+v.name+"|panic-building-start-function", "doerner.SignSender(%s) panicked before a handler could be constructed: %s", v.name, pan)
				continue
			}
			peerR := goodR
			if strings.Contains(v.name, "message") {
				peerR, _ = sgR(dm.K.R, ids[0], ids[1], v.m)
			}
			add(&c20Scenario{fn: "doerner.SignSender", param: "parameter", value: v.name, two: true, leaders: leadS, ids: two, expectKey: &key, msg: v.m, subjects: subj(ids[1]),
				start: map[party.ID]protocol.StartFunc{ids[0]: peerR, ids[1]: sf}})
		}
		// refresh with nil configs
		func() {
			var sf protocol.StartFunc
			pan := ""
			func() {
				defer func() {
					if rec := recover(); rec != nil {
						pan = fmt.Sprint(rec)
					}
				}()
				sf = doerner.RefreshReceiver(nil, ids[0], ids[1], nil)
			}()
			t.Obs("evaluations", 1)
			t.Distinct("doerner.RefreshReceiver|nil-config")
			if pan != "" {
				t.Violation("doerner.RefreshReceiver|nil-config|panic-building-start-function", "doerner.RefreshReceiver(nil) panicked: %s", pan)
				return
			}
			add(&c20Scenario{fn: "doerner.RefreshReceiver", param: "parameter", value: "nil-config", two: true, leaders: lead, ids: two, keygenLike: true, expectKey: &key, subjects: subj(ids[0]),
				start: map[party.ID]protocol.StartFunc{ids[0]: sf, ids[1]: doerner.RefreshSender(dm.K.S, ids[1], ids[0], nil)}})
		}()
		func() {
			var sf protocol.StartFunc
			pan := ""
			func() {
				defer func() {
					if rec := recover(); rec != nil {
						pan = fmt.Sprint(rec)
					}
				}()
				sf = doerner.RefreshSender(nil, ids[1], ids[0], nil)
			}()
			t.Obs("evaluations", 1)
			t.Distinct("doerner.RefreshSender|nil-config")
			if pan != "" {
				t.Violation("doerner.RefreshSender|nil-config|panic-building-start-function", "doerner.RefreshSender(nil) panicked: %s", pan)
				return
			}
			add(&c20Scenario{fn: "doerner.RefreshSender", param: "parameter", value: "nil-config", two: true, leaders: lead, ids: two, keygenLike: true, expectKey: &key, subjects: subj(ids[1]),
				start: map[party.ID]protocol.StartFunc{ids[0]: doerner.RefreshReceiver(dm.K.R, ids[0], ids[1], nil), ids[1]: sf}})
		}()
	case "cmp-keygen":
		fx.InstallPrimeHook()
		fx.SetPrimeOffset(uint64(r.Intn(1000)))
		for _, th := range c20Thresholds {
			th := th
			add(&c20Scenario{fn: "cmp.Keygen", param: "threshold", value: th.name, keygenLike: true, subjects: allSubj(ids),
				start: all(func(id party.ID) protocol.StartFunc { return cmp.Keygen(group, id, ids, th.v(len(ids)), nil) }, ids)})
		}
		for _, l := range idLists(ids) {
			l := l
			if l.ctl && rep > 0 {
				continue
			}
			add(&c20Scenario{fn: "cmp.Keygen", param: "participants", value: l.name, control: l.ctl, keygenLike: true, subjects: allSubj(ids),
				start: all(func(id party.ID) protocol.StartFunc { return cmp.Keygen(group, id, l.ids, 1, nil) }, ids)})
		}
	case "cmp-sign", "cmp-presign", "cmp-online", "cmp-refresh":
		fx.InstallPrimeHook()
		fx.SetPrimeOffset(uint64(r.Intn(1000)))
		cm := fx.NewCMPMatDealt(ids, 1)
		key := cm.Shares()[0].GroupKey
		msg := r.Bytes(32)
		S := ids[:2]
		guard := func(fn, what string, f func() protocol.StartFunc) protocol.StartFunc {
			var sf protocol.StartFunc
			func() {
				defer func() {
					if rec := recover(); rec != nil {
						t.Obs("evaluations", 1)
						t.Distinct("%s|%s|panic-building-start-function", fn, what)
						t.Violation(fn+"|"+what+"|panic-building-start-function", "%s(%s) panicked before a handler could be constructed: %v", fn, what, rec)
					}
				}()
				sf = f()
			}()
			return sf
		}
		badCfgs := func() map[string]*cmp.Config {
			m := map[string]*cmp.Config{"nil": nil, "zero-object": cmp.EmptyConfig(group)}
			c := fx.CloneCMP(cm.Cfgs[ids[0]])
			c.ECDSA = nil
			m["nil-ecdsa-share"] = c
			c = fx.CloneCMP(cm.Cfgs[ids[0]])
			c.Paillier = nil
			m["nil-paillier-key"] = c
			c = fx.CloneCMP(cm.Cfgs[ids[0]])
			c.Public = nil
			m["nil-public-table"] = c
			c = fx.CloneCMP(cm.Cfgs[ids[0]])
			delete(c.Public, ids[0])
			m["own-entry-missing"] = c
			c = fx.CloneCMP(cm.Cfgs[ids[0]])
			c.Threshold = 3
			m["threshold=n"] = c
			c = fx.CloneCMP(cm.Cfgs[ids[0]])
			c.Threshold = -1
			m["threshold=-1"] = c
			c = fx.CloneCMP(cm.Cfgs[ids[0]])
			c.Group = nil
			m["nil-group"] = c
			c = fx.CloneCMP(cm.Cfgs[ids[0]])
			c.Public[ids[1]] = nil
			m["nil-peer-table-entry"] = c
			c = fx.CloneCMP(cm.Cfgs[ids[0]])
			c.Public[ids[0]] = nil
			m["nil-own-table-entry"] = c
			c = fx.CloneCMP(cm.Cfgs[ids[0]])
			c.Public[ids[1]].Paillier = nil
			m["peer-entry-without-paillier-key"] = c
			c = fx.CloneCMP(cm.Cfgs[ids[0]])
			c.Public[ids[1]].ECDSA = nil
			m["peer-entry-without-ecdsa-share"] = c
			c = fx.CloneCMP(cm.Cfgs[ids[0]])
			delete(c.Public, ids[1])
			m["peer-table-entry-missing"] = c
			// systematically: every nillable field of the configuration and of a peer's / the own public entry absent
			ct := reflect.TypeOf(*cm.Cfgs[ids[0]])
			for i := 0; i < ct.NumField(); i++ {
				f := ct.Field(i)
				switch f.Type.Kind() {
				case reflect.Ptr, reflect.Interface, reflect.Slice, reflect.Map:
				default:
					continue
				}
				name := "nil-field-" + f.Name
				c = fx.CloneCMP(cm.Cfgs[ids[0]])
				reflect.ValueOf(c).Elem().Field(i).Set(reflect.Zero(f.Type))
				m[name] = c
			}
			if pe := cm.Cfgs[ids[0]].Public[ids[1]]; pe != nil {
				pt := reflect.TypeOf(*pe)
				for i := 0; i < pt.NumField(); i++ {
					f := pt.Field(i)
					switch f.Type.Kind() {
					case reflect.Ptr, reflect.Interface, reflect.Slice, reflect.Map:
					default:
						continue
					}
					for _, who := range []int{0, 1} {
						c = fx.CloneCMP(cm.Cfgs[ids[0]])
						reflect.ValueOf(c.Public[ids[who]]).Elem().Field(i).Set(reflect.Zero(f.Type))
						m[fmt.Sprintf("%s-entry-nil-field-%s", []string{"own", "peer"}[who], f.Name)] = c
					}
				}
			}
			return m
		}
		signerSets := []struct {
			name string
			S    []party.ID
			who  []party.ID
			ctl  bool
		}{
			{"t-signers(too-few)", ids[:1], ids[:1], false},
			{"t+1-without-self", ids[1:], ids, false},
			{"contains-non-shareholder", []party.ID{ids[0], ids[1], "zz-not-a-shareholder"}, ids[:2], false},
			{"duplicated", []party.ID{ids[0], ids[1], ids[1]}, ids[:2], false},
			{"empty", []party.ID{}, ids[:2], false},
			{"t+1(valid)", ids[:2], ids[:2], true},
		}
		switch fam {
		case "cmp-sign":
			for _, s := range signerSets {
				s := s
				if s.ctl && rep > 0 {
					continue
				}
				add(&c20Scenario{fn: "cmp.Sign", param: "signers", value: s.name, control: s.ctl, expectKey: &key, msg: msg, ids: s.who, subjects: allSubj(s.who),
					start: all(func(id party.ID) protocol.StartFunc { return cmp.Sign(cm.Cfgs[id], s.S, msg, nil) }, s.who)})
			}
			for _, mv := range []struct {
				name string
				m    []byte
			}{{"nil", nil}, {"empty", []byte{}}} {
				mv := mv
				add(&c20Scenario{fn: "cmp.Sign", param: "message", value: mv.name, expectKey: &key, msg: mv.m, ids: S, subjects: allSubj(S),
					start: all(func(id party.ID) protocol.StartFunc { return cmp.Sign(cm.Cfgs[id], S, mv.m, nil) }, S)})
			}
			for name, c := range badCfgs() {
				name, c := name, c
				sf := guard("cmp.Sign", "key-material="+name, func() protocol.StartFunc { return cmp.Sign(c, S, msg, nil) })
				if sf == nil {
					continue
				}
				add(&c20Scenario{fn: "cmp.Sign", param: "key-material", value: name, expectKey: &key, msg: msg, ids: S, subjects: subj(ids[0]),
					start: map[party.ID]protocol.StartFunc{ids[0]: sf, ids[1]: cmp.Sign(cm.Cfgs[ids[1]], S, msg, nil)}})
			}
		case "cmp-presign":
			for _, full := range []bool{false, true} {
				full := full
				fn := "cmp.Presign"
				if full {
					fn = "presign.StartPresign(full)"
				}
				mk := func(c *cmp.Config, S []party.ID) protocol.StartFunc {
					if full {
						return presign.StartPresign(c, S, msg, nil)
					}
					return cmp.Presign(c, S, nil)
				}
				for _, s := range signerSets {
					s := s
					if s.ctl {
						continue
					}
					add(&c20Scenario{fn: fn, param: "signers", value: s.name, expectKey: &key, msg: msg, ids: s.who, subjects: allSubj(s.who),
						start: all(func(id party.ID) protocol.StartFunc { return mk(cm.Cfgs[id], s.S) }, s.who)})
				}
				for name, c := range badCfgs() {
					name, c := name, c
					sf := guard(fn, "key-material="+name, func() protocol.StartFunc { return mk(c, S) })
					if sf == nil {
						continue
					}
					add(&c20Scenario{fn: fn, param: "key-material", value: name, expectKey: &key, msg: msg, ids: S, subjects: subj(ids[0]),
						start: map[party.ID]protocol.StartFunc{ids[0]: sf, ids[1]: mk(cm.Cfgs[ids[1]], S)}})
				}
			}
		case "cmp-online":
			_, outs, err := fx.RunMulti(r, S, func(id party.ID) protocol.StartFunc { return cmp.Presign(cm.Cfgs[id], S, nil) }, fx.Opt{})
			if err != nil || !fx.AllDone(outs) {
				t.Inconclusive("presign failed")
				return
			}
			pre := map[party.ID]*ecdsa.PreSignature{}
			for _, o := range outs {
				pre[o.ID] = o.Value.(*ecdsa.PreSignature)
			}
			clone := func() *ecdsa.PreSignature {
				p := *pre[ids[0]]
				return &p
			}
			bad := map[string]*ecdsa.PreSignature{"nil": nil, "empty-object": ecdsa.EmptyPreSignature(group)}
			p := clone()
			p.R = group.NewPoint()
			bad["identity-R"] = p
			p = clone()
			p.KShare = group.NewScalar()
			bad["zero-k-share"] = p
			p = clone()
			p.ChiShare = group.NewScalar()
			bad["zero-chi-share"] = p
			p = clone()
			p.RBar = party.NewPointMap(map[party.ID]curve.Point{ids[0]: pre[ids[0]].RBar.Points[ids[0]]})
			bad["entry-missing"] = p
			p = clone()
			p.S = nil
			bad["nil-S-table"] = p
			p = clone()
			p.ID = nil
			bad["nil-id"] = p
			p = clone()
			p.RBar = nil
			bad["nil-Rbar-table"] = p
			p = clone()
			p.R = nil
			bad["nil-R"] = p
			for name, bp := range bad {
				name, bp := name, bp
				sf := guard("cmp.PresignOnline", "presignature="+name, func() protocol.StartFunc { return cmp.PresignOnline(cm.Cfgs[ids[0]], bp, msg, nil) })
				if sf == nil {
					continue
				}
				add(&c20Scenario{fn: "cmp.PresignOnline", param: "presignature", value: name, expectKey: &key, msg: msg, ids: S, subjects: subj(ids[0]),
					start: map[party.ID]protocol.StartFunc{ids[0]: sf, ids[1]: cmp.PresignOnline(cm.Cfgs[ids[1]], pre[ids[1]], msg, nil)}})
			}
			for _, mv := range []struct {
				name string
				m    []byte
			}{{"nil", nil}, {"empty", []byte{}}} {
				mv := mv
				add(&c20Scenario{fn: "cmp.PresignOnline", param: "message", value: mv.name, expectKey: &key, msg: mv.m, ids: S, subjects: allSubj(S),
					start: all(func(id party.ID) protocol.StartFunc { return cmp.PresignOnline(cm.Cfgs[id], pre[id], mv.m, nil) }, S)})
			}
			for _, name := range []string{"nil", "zero-object", "own-entry-missing"} {
				c := badCfgs()[name]
				sf := guard("cmp.PresignOnline", "key-material="+name, func() protocol.StartFunc { return cmp.PresignOnline(c, pre[ids[0]], msg, nil) })
				if sf == nil {
					continue
				}
				add(&c20Scenario{fn: "cmp.PresignOnline", param: "key-material", value: name, expectKey: &key, msg: msg, ids: S, subjects: subj(ids[0]),
					start: map[party.ID]protocol.StartFunc{ids[0]: sf, ids[1]: cmp.PresignOnline(cm.Cfgs[ids[1]], pre[ids[1]], msg, nil)}})
			}
			add(&c20Scenario{fn: "cmp.PresignOnline", param: "all", value: "valid", control: true, expectKey: &key, msg: msg, ids: S,
				start: all(func(id party.ID) protocol.StartFunc { return cmp.PresignOnline(cm.Cfgs[id], pre[id], msg, nil) }, S)})
		case "cmp-refresh":
			for name, c := range badCfgs() {
				name, c := name, c
				if name == "peer-table-entry-missing" {
					continue // a config without one peer is a self-consistent smaller sharing: refresh takes its participants from it
				}
				sf := guard("cmp.Refresh", "key-material="+name, func() protocol.StartFunc { return cmp.Refresh(c, nil) })
				if sf == nil {
					continue
				}
				sc := &c20Scenario{fn: "cmp.Refresh", param: "key-material", value: name, keygenLike: true, expectKey: &key, subjects: subj(ids[0]), start: map[party.ID]protocol.StartFunc{ids[0]: sf}}
				for _, id := range ids[1:] {
					sc.start[id] = cmp.Refresh(cm.Cfgs[id], nil)
				}
				add(sc)
			}
		}
	}
	// seeded pairs: two invalid parameters at once (construction only)
	for _, sc := range scs {
		c20Judge(t, sc, r, env)
	}
	if rep == 0 && len(scs) > 0 {
		t.Sample(map[string]any{"family": fam, "scenarios": len(scs), "example": scs[len(scs)/2].fn + " " + scs[len(scs)/2].param + "=" + scs[len(scs)/2].value})
	}
}

func c20Judge(t *vk.T, sc *c20Scenario, r *vk.Rand, env vk.Env) {
	key := sc.fn + "|" + sc.param + "=" + sc.value
	t.Obs("evaluations", 1)
	n := sim.New(r)
	sid := r.Bytes(4)
	refused := map[party.ID]error{}
	for _, id := range sc.ids {
		sf := sc.start[id]
		if sf == nil {
			continue
		}
		var h protocol.Handler
		var err error
		pnk, fr, txt := vk.Guard(func() {
			if sc.two {
				h, err = protocol.NewTwoPartyHandler(sf, sid, sc.leaders[id])
			} else {
				h, err = protocol.NewMultiHandler(sf, sid)
			}
		})
		if pnk {
			t.Distinct("%s|construction-panic", key)
			t.Violation(key+"|construction-panic|"+fr, "constructing the handler of %q with %s=%s panicked: %s", id, sc.param, sc.value, txt)
			return
		}
		if err != nil {
			refused[id] = err
			continue
		}
		n.Add(id, h, false)
	}
	if sc.control {
		if len(refused) > 0 {
			for id, e := range refused {
				t.Violation(key+"|valid-control-refused", "valid parameters were refused at %q: %v", id, e)
			}
			return
		}
	} else if len(refused) > 0 {
		// refused by at least the subjects: the expected outcome
		allSubjectsRefused := true
		for id := range sc.subjects {
			if _, ok := refused[id]; !ok {
				allSubjectsRefused = false
			}
		}
		if allSubjectsRefused {
			t.Obs("refused_at_start", 1)
			t.Distinct("%s|refused", key)
			return
		}
	}
	// the session was allowed to start somewhere: run it
	t.Obs("sessions_started_with_suspect_parameter", 1)
	var outs []fx.Outcome
	pnk, fr, txt := vk.Guard(func() { n.Run(); outs = fx.Outcomes(n) })
	if pnk {
		t.Distinct("%s|session-panic", key)
		t.Violation(key+"|session-panic|"+fr, "a session started with %s=%s panicked a participant: %s", sc.param, sc.value, txt)
		return
	}
	t.Distinct("%s|session-run", key)
	allDone := len(outs) > 0
	for _, o := range outs {
		if o.State != "done" {
			allDone = false
		}
	}
	correct := allDone && len(refused) == 0
	if correct && !sc.keygenLike && sc.expectKey != nil {
		for _, o := range outs {
			if pre, isPre := o.Value.(*ecdsa.PreSignature); isPre {
				// an offline presigning session ends with presignatures: judged by their own validity rule and by
				// agreement on the nonce point (the signature they lead to is C01's business)
				okPre := pre != nil && pre.Validate() == nil
				if okPre {
					if first, ok0 := outs[0].Value.(*ecdsa.PreSignature); ok0 && first != nil && first.R != nil && pre.R != nil {
						okPre = first.R.Equal(pre.R)
					}
				}
				if !okPre {
					correct = false
					t.Violation(key+"|wrong-result", "a session started with %s=%s completed with an invalid or disagreeing presignature at %q", sc.param, sc.value, o.ID)
				}
				continue
			}
			if ok, _, _ := fx.VerifySig(o.Value, *sc.expectKey, sc.msg); !ok {
				correct = false
				t.Violation(key+"|wrong-result", "a session started with %s=%s completed with an invalid signature at %q", sc.param, sc.value, o.ID)
			}
		}
	}
	if correct {
		t.Obs("harmless_parameter_sessions", 1)
		return // the parameter did no harm: it was not invalid for this protocol
	}
	if sc.control {
		t.Violation(key+"|valid-control-did-not-complete", "a session with valid parameters did not complete: %s", fx.Describe(outs))
		return
	}
	// honest peers (the non-subjects that started) left unfinished or failed because a subject was allowed to start
	for _, o := range outs {
		if !sc.subjects[o.ID] && o.State != "done" {
			t.Violation(key+"|honest-peer-harmed|"+o.State, "%s=%s was accepted at start; honest peer %q ended %s: %s", sc.param, sc.value, o.ID, o.State, truncStr(fmt.Sprint(o.Err), 160))
			return
		}
	}
	// only subjects are unfinished: they accepted an invalid parameter and then stalled or failed themselves
	for _, o := range outs {
		if sc.subjects[o.ID] && o.State != "done" {
			t.Violation(key+"|accepted-then-"+o.State, "%s=%s was accepted by handler construction at %q, which then ended %s: %s", sc.param, sc.value, o.ID, o.State, truncStr(fmt.Sprint(o.Err), 160))
			return
		}
	}
}
