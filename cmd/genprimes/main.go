// genprimes generates 1024-bit safe Blum primes with the library's own search
// (hook unset) and prints them in hex, one per line.  Run once, offline.
package main

import (
	"crypto/rand"
	"fmt"
	"os"
	"strconv"

	"github.com/taurusgroup/multi-party-sig/pkg/math/sample"
	"github.com/taurusgroup/multi-party-sig/pkg/pool"
)

func main() {
	n, _ := strconv.Atoi(os.Args[1])
	pl := pool.NewPool(0)
	for i := 0; i < n; i += 2 {
		p, q := sample.Paillier(rand.Reader, pl)
		fmt.Println(p.Hex())
		fmt.Println(q.Hex())
	}
}
