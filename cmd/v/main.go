package main

import (
	"fmt"
	"os"

	_ "github.com/taurusgroup/multi-party-sig/verif/checks"
	"github.com/taurusgroup/multi-party-sig/verif/ref"
	"github.com/taurusgroup/multi-party-sig/verif/vk"
)

func main() {
	if len(os.Args) < 2 {
		fmt.Fprintln(os.Stderr, "usage: v check|child ...")
		os.Exit(2)
	}
	if err := ref.SelfTest(); err != nil {
		fmt.Fprintln(os.Stderr, "INFRASTRUCTURE: reference self-test failed:", err)
		os.Exit(2)
	}
	switch os.Args[1] {
	case "check":
		os.Exit(vk.SuperMain(os.Args[2:]))
	case "child":
		os.Exit(vk.ChildMain(os.Args[2:]))
	case "list":
		for _, id := range vk.IDs() {
			fmt.Println(id)
		}
	}
}
