#!/bin/bash
# usage: tools/seedcheck.sh [seed-dir-name ...]   (default: all of /verif/seeded/*)
# Replays every stored seeded change against the check(s) that are supposed to catch it: the patch is applied to a
# scratch worktree of /repo HEAD (never to /repo), the check runs through ./valt, and a VIOLATION line is expected.
# Writes /verif/seeded/RESULTS.tsv (seed, check, verdict, first violation key).
cd /verif || exit 2
export GOFLAGS=-mod=mod GOPROXY=off GOSUMDB=off GOTOOLCHAIN=local
wt=/tmp/wt/seedcheck
git -C /repo worktree remove --force $wt 2>/dev/null
git -C /repo worktree add --detach $wt HEAD >/dev/null 2>&1 || { echo "worktree failed"; exit 2; }
seeds="$@"; [ -z "$seeds" ] && seeds=$(ls seeded | grep -E '^C[0-9]+-[0-9]+$')
out=seeded/RESULTS.tsv
[ $# -eq 0 ] && : > $out
for s in $seeds; do
  d=seeded/$s
  [ -f $d/patch.diff ] || continue
  checks=$(cat $d/caught_by 2>/dev/null); [ -z "$checks" ] && checks=${s%-*}
  git -C $wt checkout -- . ; git -C $wt clean -fdq
  if ! git -C $wt apply $PWD/$d/patch.diff 2>/dev/null; then printf "%s\t-\tPATCH-DOES-NOT-APPLY\t\n" $s | tee -a $out; continue; fi
  for c in $checks; do
    log=$(./valt $wt $c 2>&1)
    key=$(echo "$log" | grep -m1 '^VIOLATION' | sed 's/.*key=//; s/ ::.*//' | cut -c1-160)
    if [ -n "$key" ]; then v=CAUGHT; else v=MISSED; fi
    printf "%s\t%s\t%s\t%s\n" $s $c $v "$key" | tee -a $out
  done
done
git -C $wt checkout -- . ; cd /; git -C /repo worktree remove --force $wt
