#!/bin/bash
# usage: confirm_seed.sh <Cxx> <k> [srcdir [dstk]]  -- confirms a seeded change in a scratch worktree and records the outcome
id=$1; k=$2
src=${3:-/tmp/seeded/out/$id/$k}
k=${4:-$k}
dst=/verif/seeded/$id-$k
mkdir -p $dst; cp $src/patch.diff $src/demo_test.go $src/meta.json $dst/ 2>/dev/null
export GOFLAGS=-mod=mod GOPROXY=off GOSUMDB=off GOTOOLCHAIN=local
wt=/tmp/wt/confirm-$id-$k
git -C /repo worktree remove --force $wt 2>/dev/null
git -C /repo worktree add --detach $wt HEAD >/dev/null 2>&1 || { echo "worktree failed"; exit 2; }
pkgdir=$(python3 -c "import json;print(json.load(open('$dst/meta.json'))['demo_package_dir'])")
pkgdir=${pkgdir#/tmp/wt/$id/}; pkgdir=${pkgdir#./}
log=$dst/confirm.log; : > $log
cd $wt
cp $dst/demo_test.go $wt/$pkgdir/zz_demo_test.go
echo "== demo on unchanged tree (expect PASS)" >> $log
if go test -vet=off -count=1 ./$pkgdir/ >> $log 2>&1; then base=pass; else base=fail; fi
git apply $dst/patch.diff || { echo "patch does not apply" >> $log; }
echo "== demo with change (expect FAIL)" >> $log
if go test -vet=off -count=1 ./$pkgdir/ >> $log 2>&1; then mut=pass; else mut=fail; fi
rm -f $wt/$pkgdir/zz_demo_test.go
echo "== existing suite with change (expect PASS)" >> $log
if go test -vet=off -count=1 -timeout 25m ./... >> $log 2>&1; then suite=pass; else suite=fail; fi
cd /; git -C /repo worktree remove --force $wt
python3 - <<P
import json
m=json.load(open('$dst/meta.json'))
m['confirmed']={'demo_unchanged':'$base','demo_with_change':'$mut','existing_suite_with_change':'$suite','how':'tools/confirm_seed.sh in a scratch worktree of /repo HEAD (removed afterwards)'}
json.dump(m,open('$dst/meta.json','w'),indent=1)
print('$id-$k', m['confirmed'])
P
