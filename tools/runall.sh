#!/bin/bash
# runs every registered check at the given tier and seed; prints one line per check
tier=${1:-quick}; seed=${2:-1}
cd /verif
for id in $(python3 -c "import json;print(' '.join(c['property_id'] for c in json.load(open('MANIFEST.json'))['checks']))"); do
  out=$(VERIF_SEED=$seed ./vcheck $id --tier $tier 2>&1); rc=$?
  echo "$id rc=$rc $(echo "$out" | grep -a SUMMARY | cut -c1-200)"
  echo "$out" | grep -a -E "^VIOLATION|^INFRA|^INCONCL" | cut -c1-250
done
