#!/usr/bin/env python3
"""Regenerates MANIFEST.json from the table below (kept in one place so it stays valid)."""
import json, subprocess

CHECKS = {
 # id: (level, technique, level text, level note, design ref)
 "C01": ("exploration", "runtime monitoring: real handlers in a deterministic network simulator, every returned signature judged by independent ECDSA/Schnorr/BIP-340 verifiers",
         "Seeded exploration of all six signing paths over (n,t) lattices, all/sampled signer subsets, digest classes, fresh/refreshed/derived material and adversarial delivery orders; oracle = independent verifier + agreement + completion at quiescence.",
         "Trusts verif/ref; blake3 shared with the library for the library-defined FROST challenge; CMP primes from the pool (hook H1).", "5/C01"),
 "C02": ("exploration", "runtime monitoring: real key generations in the simulator, consistent-key-material oracle with reference Lagrange over every (t+1)-subset",
         "Seeded exploration over (protocol, n, t, identifier alphabet, scheduler); the oracle compares tables across parties, own share vs own entry, and reconstructs from every enumerated (t+1)-subset of secrets and of table entries; a t-subset must not reconstruct.",
         "Trusts verif/ref Lagrange and secp256k1; CMP primes from the pool (hook H1).", "5/C02"),
 "C17": ("exploration", "Go race detector over multi-goroutine handler workloads + offline lifecycle history checking (porcupine nondeterministic write-once model, close-exactly-once and terminal/closed invariants)",
         "Every party's handler is driven concurrently by feeders (CanAccept+Accept, duplicates, and peer messages with one field replaced by CBOR null so that the panic-recovery path runs under concurrency), a drainer, pollers and a stopper at seeded points, then by post-end call sequences, for detproto, FROST, Doerner and CMP sign with a pool, in a -race build: repository-internal race reports are violations; recorded call/return histories are checked for panics, exactly-once close, closed<=>terminal, Stop effect, write-once Result (linearizability), nothing emitted after the end, no blocked call.",
         "Race reports depend on the interleavings that occurred; parties never share objects; checker timeouts are inconclusive.", "5/C17"),
 "C18": ("exploration", "runtime monitoring with verif yield hooks: pairwise gates and seeded yield vectors at the pool's synchronisation points, hook-free stress, goroutine-dump conservation oracle",
         "Explores interleavings of caller and workers by holding a worker point until a caller point happened (and the reverse) for every pair and small configurations, by seeded yield vectors, and by stress with instant tasks; oracles are exact results, exactly-once evaluation, genuine distinct Search results, return (deadlock decided from a goroutine dump), and no worker parked in chan send after a call returned.",
         "Trusts runtime.Stack goroutine states; hooks only delay.", "5/C18"),
 "C19": ("exploration", "runtime monitoring: adversarially related transcript pairs judged against an independent canonical encoding; commitment alteration lattice",
         "Seeded generation of typed item sequences and related pairs (boundary/domain shifts, split/merge, retyping, permutation, framing pasted as bytes crafted against weakened framings); a digest collision between sequences whose canonical encodings differ is the violation; commitments must refuse every altered tuple/decommitment.",
         "Abstract identity of items computed by harness code; blake3 collision resistance.", "5/C19"),
 "C03": ("fault_enumeration", "runtime monitoring: single-fault campaigns through the real handlers, fault catalogue derived mechanically from the recorded honest transcript, result oracle by independent verifiers and cross-party consistency",
         "For every protocol and corrupted position, every leaf of every message of the corrupted participant x typed alterations x echo-consistent / wire-only delivery, plus whole-message substitutions, one fault per run; every honest party must be unfinished, failed, or hold a correct result consistent with every other honest finisher. Complete catalogues for FROST/Doerner, stratified samples (quick) or complete (thorough) for CMP.",
         "One deviating participant; a panic of an honest party counts as not finished here (C05 judges it).", "5/C03"),
 "C04": ("fault_enumeration", "runtime monitoring: the C03 fault campaigns judged by a culprit oracle with simulator ground truth, plus reflective state-level deviations of a CMP presigner in the offline, full and online variants",
         "Culprit soundness (named parties are the corrupted one; relayed aborts name a real notice sender; no self-blame; verification failures attributed to the sender) over the whole catalogue, and identifiable abort (every honest signer ends with culprits=[cheater]) for wrong chi / gamma / delta / sigma contributions whose individual proofs all pass; CMP keygen / refresh against a cheater sharing with a polynomial of degree t-1 (whoever refuses names the cheater, nobody names itself).",
         "State is altered by reflection between deliveries; abort notices are suppressed in identifiable-abort runs.", "5/C04"),
 "C05": ("fault_enumeration", "runtime monitoring in sacrificial child processes: hostile messages substituted into real sessions at the handler boundary (L1), high-throughput round-level feeding with boundary re-execution (L2), decoder fuzzing; per-call CPU/allocation meters, RLIMIT_AS, journalled inputs for crash attribution",
         "Every field path of every message type of every protocol x structural malformations, header malformations and random corruptions, early (possibly queued) and late (last awaited) timing; oracles per Accept call: no panic or process death, CPU <= 60 s, allocation <= 1 GiB, no blocked call, legal post-state. CMP breadth comes from L2 (thousands of payloads on the victim's round object) whose hits only count when they reproduce at the boundary.",
         "Per-call meters are process-wide (one case at a time per child); a watchdog without provable block/overrun is inconclusive; a third of the CMP / Doerner instances run with a worker pool; restore calls of every stored type are additionally measured with oversized numbers (8 KiB / 64 KiB, constructed to survive trial division) in every field, decided on CPU time consumed.", "5/C05"),
 "C06": ("fault_enumeration", "runtime monitoring: shielded twin handlers (two real handlers with one identity, forked randomness at round k) as the equivocator, every bipartition of the honest parties, offline view-consistency checker over the simulator log",
         "For every MultiHandler protocol, non-final broadcast round k, equivocator position and bipartition (sampled for the expensive ones), the two groups receive individually valid but different payloads; twins are shielded so that only the honest handlers' echo comparison can stop the session; two honest finishers with different recorded views are the violation. A wire-only one-byte flip is the weak variant.",
         "Twins coincide up to round k-1 through identical deterministic randomness streams; honest-to-honest traffic is never modified.", "5/C06"),
 "C07": ("exploration", "runtime monitoring: stateless DFS with sleep sets over all causally permitted delivery interleavings of a deterministic protocol run by the real MultiHandler, plus sampled adversarial schedules on the real protocols under party-keyed deterministic randomness",
         "Exhaustive for n=2 (all rounds, plus one duplicate at every later position); n=3 (rounds 2-3 and 2-4) per first-delivery sub-tree under a leaf budget in both tiers (complete enumeration measured at hours per sub-tree), evidence counts completed / incomplete sub-trees; sampled random/reverse/starve schedules with duplicates, stale replays and foreign-session injections (including abort notices of a third, user-stopped session) for FROST, Taproot, Doerner and CMP sign; results must be bit-identical to the in-order run whenever a party's draw sequence is identical, correct and agreed otherwise.",
         "Sleep-set reduction assumes deliveries to different parties commute (no shared objects); exhaustive flag only when all DFS sub-trees completed.", "5/C07"),
 "C09": ("fault_enumeration", "runtime monitoring: session-tag lattice, cross-session replay at every delivery step, and echo-consistent transfer of proof/commitment-carrying messages between senders and sessions",
         "Pairs of session descriptions differing in exactly one parameter (incl. adversarial identifier families) must have different tags; every message of a session A is offered to every party of a session B after every step (CanAccept false; forced delivery harmless); a corrupted party's proof-carrying messages are replaced by another party's or by its own from another session and must be refused at the round that verifies them.",
         "Only secp256k1 exists (curve dimension degenerate); tags read by reflection from the round object.", "5/C09"),
 "C08": ("exploration", "runtime monitoring: seeded operation histories through real handlers with per-step oracles (key unchanged, material consistent, shares changed, mixed epochs useless, stale signer => no signature)",
         "Histories over {refresh, serialise+restore, derive, sign} for FROST, Taproot, Doerner and CMP on (n,t) lattices; after each refresh the oracles of the statement are evaluated, including every enumerated mixed-epoch reconstruction set and sessions with 1..t stale signers; refreshes cut short at every round (share must stay), against a peer echoing the refresh contribution, and against a peer running from a share of its own choosing (honest finishers keep the group key).",
         "Epoch snapshots through the documented encoders; t=0 is exempt from 'share changed' (mathematically impossible).", "5/C08"),
 "C14": ("exploration", "runtime monitoring: differential against a reference BIP-32 CKDpub on every party after real key generations, plus material oracle and signing under the reference-derived key",
         "Derivation paths of length <=3 over boundary and random indices, interleaved with refresh, for all four protocols; child key and chain code compared with the reference on every party, derived sharing validated, signing judged by the independent verifier.",
         "Reference BIP-32 checked against test vector 1; indices >= 2^31 out of scope.", "5/C14"),
 "C15": ("exploration", "runtime monitoring: codec round trips with deep (reflective) equality and behavioural reuse, CBOR-tree single-node malformations and semantic corruptions with an error-or-valid oracle",
         "Every result type is encoded, restored with its Empty* constructor, compared deeply (including unexported state) and reused in later sessions mixed with originals; ~1000+ single-node malformations, semantic corruptions and random corruptions per run must give an error or an object satisfying the listed validity rules; panics and silently-empty objects are violations. Known (unrepaired) findings are listed in known_findings.jsonl.",
         "Validity rules limited to those the statement lists.", "5/C15"),
 "C10": ("exploration", "runtime monitoring: direct drive of all 15 provers/verifiers with reflection-generated perturbations of every public input, proof field and the context",
         "Completeness on a boundary lattice of witnesses (0, +-1, +-(2^l-1), random, scalar 1/q-1) and binding by substitution: every public-input field replaced by another valid instance's, same-typed inputs swapped, context changed, every proof field replaced by the same field of another valid proof (same and other statement) and by +-1/negation/zero, and a witness 600 bits beyond the range; an accepted perturbed triple is the violation.",
         "Soundness is probed by substitution, not established; panics inside Verify are tallied as not-accepted.", "5/C10"),
 "C11": ("exploration", "runtime monitoring with a pinned crypto/rand.Reader: pairwise comparison of published nonce commitments across a lattice of signing contexts, with positive controls",
         "All pairs of ~25-50 FROST signing contexts differing in message, signer set, session id, variant or share are started under constant, cycling and honest random sources and their (D_i,E_i) compared; BIP-340 (key,message) pairs likewise with constant/nil/honest aux; equal-context controls prove the pin works.",
         "crypto/rand.Reader swapped process-wide in the child; positive control required.", "5/C11"),
 "C12": ("exploration", "differential runtime monitoring of Paillier, CRT exponentiation and MtA against a math/big reference",
         "Bit-exact comparison of EncWithNonce/Add/Mul with the reference, Dec inverse, randomness recovery, acceptance set of ValidateCiphertexts/Dec, refusal outside [-(N-1)/2,(N-1)/2], Modulus.Exp/ExpI on edge operands, and alpha+beta=a*b over the integers for MtA on a scalar lattice with verified proofs.",
         "Trusts verif/ref Paillier; keys from the prime pool.", "5/C12"),
 "C13": ("exploration", "runtime monitoring: direct drive of internal/ot with reflective access to results and reflection-driven single-field message alterations",
         "Defining relations of random/correlated/extended/additive OT for every batch index and degenerate choice vectors, products on a boundary lattice with setup reuse, and single-field alterations of all setup and online messages with the error-or-still-correct oracle (a panic is neither).",
         "Reads unexported result fields with reflect+unsafe; oracle arithmetic is math/big.", "5/C13"),
 "C20": ("fault_enumeration", "runtime monitoring: start-function lattice of single invalid parameters under recover, with follow-up sessions in the simulator when construction succeeds",
         "Every start function of every protocol is called with one invalid parameter from a lattice of bad thresholds, identifier lists, signer sets, messages, key material (nil, empty, field-stripped) and presignatures; construction must return an error and never panic; if it succeeds the session runs with valid peers and must complete correctly (parameter harmless) - a panic, wrong result or harmed honest peer is a violation; valid controls must start and complete.",
         "A parameter whose session completes correctly is treated as not invalid.", "5/C20"),
 "C16": ("exploration", "differential runtime monitoring against independent big-integer ECDSA / BIP-340 / recovery references",
         "Seeded differential exploration: every stand-alone primitive is run on valid signatures and a lattice of single-field perturbations and its verdict compared with an independent reference; held on what was observed.",
         "Trusts verif/ref (math/big, crypto/sha256), itself checked against BIP-340 vectors and a BIP-32 vector at start-up.", "5/C16"),
}
REASON_PENDING = "check not built yet in this session (runtime-monitoring design exists in DESIGN.md section 5); will be claimed once its check is silent on the unchanged tree"

def main():
    props = [json.loads(l)["id"] for l in open("/verif/properties.jsonl")]
    hooks_commits = subprocess.run(["git","-C","/repo","log","--format=%h %s"],capture_output=True,text=True).stdout.splitlines()
    hook_commits = [l.split()[0] for l in hooks_commits if "verif hook" in l]
    m = {
     "version": 1,
     "setup_cmd": "cd /verif && export GOFLAGS=-mod=mod GOPROXY=off GOSUMDB=off GOTOOLCHAIN=local && mkdir -p bin && go build -tags verif -o bin/v ./cmd/v && go build -tags verif -race -o bin/vchild-race ./cmd/v",
     "hooks": {
       "guard": "verif",
       "enable": "go build -tags verif (the harness module /verif replaces github.com/taurusgroup/multi-party-sig by /repo and is always built with -tags verif)",
       "baseline_off_cmd": "cd /repo && GOFLAGS=-mod=mod GOPROXY=off GOSUMDB=off GOTOOLCHAIN=local go test -vet=off -count=1 -timeout 25m ./...",
       "source_commits": hook_commits,
       "add_only": True,
     },
     "engines": [
       {"name":"vk","path":"/verif/vk","serves_properties":sorted(CHECKS),"kind_free_text":"supervisor + journalled sacrificial child processes, seeded case lists, known-findings matching, evidence writer"},
       {"name":"ref","path":"/verif/ref","serves_properties":sorted(CHECKS),"kind_free_text":"independent math/big references: secp256k1, ECDSA, BIP-340, BIP-32, Lagrange, Paillier, transcript framing"},
       {"name":"sim","path":"/verif/sim","serves_properties":[c for c in sorted(CHECKS) if c in ("C01","C02","C03","C04","C05","C06","C07","C08","C09","C14","C15","C17","C20")],"kind_free_text":"deterministic network simulator around the real protocol handlers with adversary pipeline and event log"},
     ],
     "checks": [],
     "not_applicable": [],
     "notes": "All checks are runtime monitors: the real code from /repo's working tree is rebuilt (go build -tags verif, replace directive) and run under seeded workloads in child processes; oracles are independent references and offline checkers over recorded events. See DESIGN.md.",
    }
    for pid in props:
        if pid in CHECKS:
            lvl, tech, text, note, ref = CHECKS[pid]
            m["checks"].append({
              "property_id": pid,
              "quick_cmd": f"./vcheck {pid} --tier quick",
              "thorough_cmd": f"./vcheck {pid} --tier thorough",
              "evidence_file": f"/verif/evidence/{pid}.json",
              "replay_cmd_template": f"./vcheck {pid} --replay {{path}}",
              "engine": "vk",
              "level_claimed": {"category": lvl, "text": text, "design_ref": ref},
              "level_note": note,
              "technique": tech,
            })
        else:
            m["not_applicable"].append({"property_id": pid, "reason": REASON_PENDING})
    json.dump(m, open("/verif/MANIFEST.json","w"), indent=1)
    print("checks:", len(m["checks"]), "not_applicable:", len(m["not_applicable"]))

main()
