// Package detproto is a small deterministic protocol written against
// internal/round with the message shapes the handler distinguishes:
//
//	round 2: broadcast + p2p     round 3: broadcast only
//	round 4: p2p only            then output.
//
// Every payload is a hash of (sender, recipient, round, digest of everything the
// sender stored so far), so the result is a function of the inputs only; the
// result additionally records, for round 2, whether the sender's broadcast had
// been stored when its p2p message was verified (it always must).
package detproto

import (
	"crypto/sha256"
	"errors"
	"fmt"
	"sort"

	"github.com/taurusgroup/multi-party-sig/internal/round"
	"github.com/taurusgroup/multi-party-sig/pkg/math/curve"
	"github.com/taurusgroup/multi-party-sig/pkg/party"
	"github.com/taurusgroup/multi-party-sig/pkg/protocol"
)

const ProtocolID = "verif/detproto"

// Result is the session digest.
type Result struct {
	Digest []byte
	// OrderViolations counts p2p messages verified before their sender's broadcast was stored.
	OrderViolations int
}

type state struct {
	*round.Helper
	skip   bool // round 3 is silent: nothing is sent for it and nothing awaited in it
	seed   []byte
	stored map[string][]byte // key "round/kind/from" -> payload
	viol   int
}

func (s *state) digest() []byte {
	keys := make([]string, 0, len(s.stored))
	for k := range s.stored {
		keys = append(keys, k)
	}
	sort.Strings(keys)
	h := sha256.New()
	h.Write(s.seed)
	for _, k := range keys {
		h.Write([]byte(k))
		h.Write(s.stored[k])
	}
	return h.Sum(nil)
}

func (s *state) payload(rnd int, kind string, to party.ID) []byte {
	h := sha256.New()
	fmt.Fprintf(h, "%s|%s|%d|%s|", s.SelfID(), to, rnd, kind)
	h.Write(s.digest())
	return h.Sum(nil)
}

// StartSkip is Start with a silent round 3.
func StartSkip(selfID party.ID, ids []party.ID, seed []byte) protocol.StartFunc {
	sf := Start(selfID, ids, seed)
	return func(sessionID []byte) (round.Session, error) {
		s, err := sf(sessionID)
		if r1, ok := s.(*round1); ok && err == nil {
			r1.skip = true
		}
		return s, err
	}
}

// Start returns the start function.
func Start(selfID party.ID, ids []party.ID, seed []byte) protocol.StartFunc {
	return func(sessionID []byte) (round.Session, error) {
		info := round.Info{ProtocolID: ProtocolID, FinalRoundNumber: 4, SelfID: selfID, PartyIDs: ids, Threshold: len(ids) - 1, Group: curve.Secp256k1{}}
		h, err := round.NewSession(info, sessionID, nil)
		if err != nil {
			return nil, err
		}
		return &round1{&state{Helper: h, seed: seed, stored: map[string][]byte{}}}, nil
	}
}

type (
	Bcast2 struct {
		round.NormalBroadcastContent
		V []byte
	}
	Msg2   struct{ V []byte }
	Bcast3 struct {
		round.NormalBroadcastContent
		V []byte
	}
	Msg4 struct{ V []byte }
)

func (Bcast2) RoundNumber() round.Number { return 2 }
func (Msg2) RoundNumber() round.Number   { return 2 }
func (Bcast3) RoundNumber() round.Number { return 3 }
func (Msg4) RoundNumber() round.Number   { return 4 }

// ---- round 1
type round1 struct{ *state }

func (r *round1) VerifyMessage(round.Message) error { return nil }
func (r *round1) StoreMessage(round.Message) error  { return nil }
func (round1) MessageContent() round.Content        { return nil }
func (round1) Number() round.Number                 { return 1 }
func (r *round1) Finalize(out chan<- *round.Message) (round.Session, error) {
	if err := r.BroadcastMessage(out, &Bcast2{V: r.payload(2, "b", "")}); err != nil {
		return r, err
	}
	for _, id := range r.OtherPartyIDs() {
		if err := r.SendMessage(out, &Msg2{V: r.payload(2, "p", id)}, id); err != nil {
			return r, err
		}
	}
	return &round2{r.state}, nil
}

// ---- round 2: broadcast + p2p
type round2 struct{ *state }

func (round2) Number() round.Number                     { return 2 }
func (round2) MessageContent() round.Content            { return &Msg2{} }
func (round2) BroadcastContent() round.BroadcastContent { return &Bcast2{} }
func (r *round2) StoreBroadcastMessage(m round.Message) error {
	b, ok := m.Content.(*Bcast2)
	if !ok || b == nil || len(b.V) != 32 {
		return round.ErrInvalidContent
	}
	r.stored["2/b/"+string(m.From)] = b.V
	return nil
}
func (r *round2) VerifyMessage(m round.Message) error {
	b, ok := m.Content.(*Msg2)
	if !ok || b == nil || len(b.V) != 32 {
		return round.ErrInvalidContent
	}
	if _, ok := r.stored["2/b/"+string(m.From)]; !ok {
		r.viol++ // the handler promised the broadcast first
	}
	return nil
}
func (r *round2) StoreMessage(m round.Message) error {
	r.stored["2/p/"+string(m.From)] = m.Content.(*Msg2).V
	return nil
}
func (r *round2) Finalize(out chan<- *round.Message) (round.Session, error) {
	if r.skip {
		return &round3silent{r.state}, nil
	}
	if err := r.BroadcastMessage(out, &Bcast3{V: r.payload(3, "b", "")}); err != nil {
		return r, err
	}
	return &round3{r.state}, nil
}

// ---- round 3, silent variant: a local step between two communication rounds (a party that completes round 2
// walks straight through it, so its round-4 messages can reach a peer that is still in round 2)
type round3silent struct{ *state }

func (round3silent) Number() round.Number              { return 3 }
func (round3silent) MessageContent() round.Content     { return nil }
func (round3silent) VerifyMessage(round.Message) error { return nil }
func (round3silent) StoreMessage(round.Message) error  { return nil }
func (r *round3silent) Finalize(out chan<- *round.Message) (round.Session, error) {
	for _, id := range r.OtherPartyIDs() {
		if err := r.SendMessage(out, &Msg4{V: r.payload(4, "p", id)}, id); err != nil {
			return r, err
		}
	}
	return &round4{r.state}, nil
}

// ---- round 3: broadcast only
type round3 struct{ *state }

func (round3) Number() round.Number                     { return 3 }
func (round3) MessageContent() round.Content            { return nil }
func (round3) BroadcastContent() round.BroadcastContent { return &Bcast3{} }
func (r *round3) VerifyMessage(round.Message) error     { return nil }
func (r *round3) StoreMessage(round.Message) error      { return nil }
func (r *round3) StoreBroadcastMessage(m round.Message) error {
	b, ok := m.Content.(*Bcast3)
	if !ok || b == nil || len(b.V) != 32 {
		return round.ErrInvalidContent
	}
	r.stored["3/b/"+string(m.From)] = b.V
	return nil
}
func (r *round3) Finalize(out chan<- *round.Message) (round.Session, error) {
	for _, id := range r.OtherPartyIDs() {
		if err := r.SendMessage(out, &Msg4{V: r.payload(4, "p", id)}, id); err != nil {
			return r, err
		}
	}
	return &round4{r.state}, nil
}

// ---- round 4: p2p only
type round4 struct{ *state }

func (round4) Number() round.Number          { return 4 }
func (round4) MessageContent() round.Content { return &Msg4{} }
func (r *round4) VerifyMessage(m round.Message) error {
	b, ok := m.Content.(*Msg4)
	if !ok || b == nil || len(b.V) != 32 {
		return round.ErrInvalidContent
	}
	return nil
}
func (r *round4) StoreMessage(m round.Message) error {
	if _, dup := r.stored["4/p/"+string(m.From)]; dup {
		return errors.New("duplicate round-4 message stored")
	}
	r.stored["4/p/"+string(m.From)] = m.Content.(*Msg4).V
	return nil
}
func (r *round4) Finalize(chan<- *round.Message) (round.Session, error) {
	return r.ResultRound(&Result{Digest: r.digest(), OrderViolations: r.viol}), nil
}
