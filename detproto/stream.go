package detproto

import (
	"bytes"
	"crypto/sha256"
	"errors"

	"github.com/taurusgroup/multi-party-sig/internal/round"
	"github.com/taurusgroup/multi-party-sig/pkg/math/curve"
	"github.com/taurusgroup/multi-party-sig/pkg/party"
	"github.com/taurusgroup/multi-party-sig/pkg/protocol"
)

// A deterministic two-party protocol for TwoPartyHandler in which one side streams: the leader sends the messages
// of two consecutive rounds without waiting for anything (its rounds 1 and 2 expect no message), the other side
// consumes them in rounds 1 and 2 and answers with a digest, which the leader checks in round 3.  The second
// chunk may therefore reach the follower while it still waits for the first (early arrival under TwoPartyHandler).
const StreamProtocolID = "verif/detstream"

type (
	Chunk1 struct{ A []byte }
	Chunk2 struct{ B []byte }
	Ack3   struct{ D []byte }
)

func (Chunk1) RoundNumber() round.Number { return 1 }
func (Chunk2) RoundNumber() round.Number { return 2 }
func (Ack3) RoundNumber() round.Number   { return 3 }

type sstate struct {
	*round.Helper
	seed   []byte
	peer   party.ID
	c1, c2 []byte
}

func chunk(seed []byte, k byte) []byte {
	h := sha256.Sum256(append(append([]byte{}, seed...), k))
	return h[:]
}
func ackOf(c1, c2 []byte) []byte {
	h := sha256.Sum256(append(append([]byte("ack"), c1...), c2...))
	return h[:]
}

// StartStream returns the start function of the leader (streaming side) or of the follower.
func StartStream(selfID, peer party.ID, leader bool, seed []byte) protocol.StartFunc {
	return func(sessionID []byte) (round.Session, error) {
		info := round.Info{ProtocolID: StreamProtocolID, FinalRoundNumber: 3, SelfID: selfID, PartyIDs: []party.ID{selfID, peer}, Threshold: 1, Group: curve.Secp256k1{}}
		h, err := round.NewSession(info, sessionID, nil)
		if err != nil {
			return nil, err
		}
		st := &sstate{Helper: h, seed: seed, peer: peer}
		if leader {
			return &lead1{st}, nil
		}
		return &foll1{st}, nil
	}
}

// ---- leader: round 1 and 2 expect nothing and send one chunk each; round 3 expects the acknowledgement
type lead1 struct{ *sstate }
type lead2 struct{ *sstate }
type lead3 struct {
	*sstate
	got []byte
}

func (lead1) VerifyMessage(round.Message) error { return nil }
func (lead1) StoreMessage(round.Message) error  { return nil }
func (lead1) MessageContent() round.Content     { return nil }
func (lead1) Number() round.Number              { return 1 }
func (r *lead1) Finalize(out chan<- *round.Message) (round.Session, error) {
	r.c1 = chunk(r.seed, 1)
	if err := r.SendMessage(out, &Chunk1{A: r.c1}, r.peer); err != nil {
		return r, err
	}
	return &lead2{r.sstate}, nil
}
func (lead2) VerifyMessage(round.Message) error { return nil }
func (lead2) StoreMessage(round.Message) error  { return nil }
func (lead2) MessageContent() round.Content     { return nil }
func (lead2) Number() round.Number              { return 2 }
func (r *lead2) Finalize(out chan<- *round.Message) (round.Session, error) {
	r.c2 = chunk(r.seed, 2)
	if err := r.SendMessage(out, &Chunk2{B: r.c2}, r.peer); err != nil {
		return r, err
	}
	return &lead3{sstate: r.sstate}, nil
}
func (lead3) MessageContent() round.Content { return &Ack3{} }
func (lead3) Number() round.Number          { return 3 }
func (r *lead3) VerifyMessage(m round.Message) error {
	b, ok := m.Content.(*Ack3)
	if !ok || b == nil || !bytes.Equal(b.D, ackOf(r.c1, r.c2)) {
		return errors.New("round 3 expects the acknowledgement of both chunks")
	}
	return nil
}
func (r *lead3) StoreMessage(m round.Message) error { r.got = m.Content.(*Ack3).D; return nil }
func (r *lead3) Finalize(chan<- *round.Message) (round.Session, error) {
	return r.ResultRound(&Result{Digest: append([]byte("leader"), r.got...)}), nil
}

// ---- follower: round 1 expects chunk one, round 2 expects chunk two and answers
type foll1 struct{ *sstate }
type foll2 struct{ *sstate }

func (foll1) MessageContent() round.Content { return &Chunk1{} }
func (foll1) Number() round.Number          { return 1 }
func (r *foll1) VerifyMessage(m round.Message) error {
	b, ok := m.Content.(*Chunk1)
	if !ok || b == nil || !bytes.Equal(b.A, chunk(r.seed, 1)) {
		return errors.New("round 1 expects chunk one")
	}
	return nil
}
func (r *foll1) StoreMessage(m round.Message) error { r.c1 = m.Content.(*Chunk1).A; return nil }
func (r *foll1) Finalize(chan<- *round.Message) (round.Session, error) {
	return &foll2{r.sstate}, nil
}
func (foll2) MessageContent() round.Content { return &Chunk2{} }
func (foll2) Number() round.Number          { return 2 }
func (r *foll2) VerifyMessage(m round.Message) error {
	b, ok := m.Content.(*Chunk2)
	if !ok || b == nil || !bytes.Equal(b.B, chunk(r.seed, 2)) {
		return errors.New("round 2 expects chunk two")
	}
	return nil
}
func (r *foll2) StoreMessage(m round.Message) error { r.c2 = m.Content.(*Chunk2).B; return nil }
func (r *foll2) Finalize(out chan<- *round.Message) (round.Session, error) {
	a := ackOf(r.c1, r.c2)
	if err := r.SendMessage(out, &Ack3{D: a}, r.peer); err != nil {
		return r, err
	}
	return r.ResultRound(&Result{Digest: append([]byte("follower"), a...)}), nil
}
