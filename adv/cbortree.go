// Package adv holds adversary building blocks: CBOR-tree mutators and
// message-header mutators.
package adv

import (
	"bytes"
	"encoding/binary"
	"fmt"
	"sort"

	"github.com/fxamacker/cbor/v2"
)

var decMode, _ = cbor.DecOptions{MaxNestedLevels: 64, MaxArrayElements: 1 << 20, MaxMapPairs: 1 << 20}.DecMode()
var encMode, _ = cbor.EncOptions{Sort: cbor.SortCanonical}.EncMode()

// Wrapped marks a byte string that itself holds an encoded document, optionally behind a raw prefix.
type Wrapped struct {
	Prefix []byte
	Doc    interface{}
	Orig   []byte // the original byte string; re-used verbatim unless something below was changed
	Dirty  bool
}

// Decode parses CBOR into a generic tree; byte strings that are themselves CBOR
// maps/arrays (optionally behind the 4-byte length prefix used for polynomials)
// are unfolded into Wrapped nodes so that their fields can be reached.
func Decode(data []byte) (interface{}, error) {
	var v interface{}
	if err := decMode.Unmarshal(data, &v); err != nil {
		return nil, err
	}
	return unfold(v, 0), nil
}

func unfold(v interface{}, depth int) interface{} {
	if depth > 12 {
		return v
	}
	switch x := v.(type) {
	case map[interface{}]interface{}:
		for k, e := range x {
			x[k] = unfold(e, depth+1)
		}
		return x
	case []interface{}:
		for i, e := range x {
			x[i] = unfold(e, depth+1)
		}
		return x
	case []byte:
		for _, pre := range []int{0, 4} {
			if len(x) > pre+1 {
				b := x[pre:]
				mt := b[0] >> 5
				if mt == 4 || mt == 5 {
					var inner interface{}
					if err := decMode.Unmarshal(b, &inner); err == nil {
						// re-encoding must reproduce the bytes, otherwise keep it opaque
						if re, err := encMode.Marshal(inner); err == nil && (bytes.Equal(re, b) || sameDoc(re, b)) {
							return &Wrapped{Prefix: append([]byte{}, x[:pre]...), Doc: unfold(inner, depth+1), Orig: append([]byte{}, x...)}
						}
					}
				}
			}
		}
		return x
	}
	return v
}

func sameDoc(a, b []byte) bool {
	var x, y interface{}
	if decMode.Unmarshal(a, &x) != nil || decMode.Unmarshal(b, &y) != nil {
		return false
	}
	ra, _ := encMode.Marshal(x)
	rb, _ := encMode.Marshal(y)
	return bytes.Equal(ra, rb)
}

// Encode serialises a tree produced by Decode (after mutation).
func Encode(v interface{}) ([]byte, error) {
	return encMode.Marshal(fold(v))
}

// RawItem is spliced verbatim into the output (for encodings the encoder would never produce).
type RawItem []byte

func fold(v interface{}) interface{} {
	switch x := v.(type) {
	case map[interface{}]interface{}:
		m := make(map[interface{}]interface{}, len(x))
		for k, e := range x {
			m[k] = fold(e)
		}
		return m
	case []interface{}:
		a := make([]interface{}, len(x))
		for i, e := range x {
			a[i] = fold(e)
		}
		return a
	case *Wrapped:
		if !x.Dirty && x.Orig != nil {
			return append([]byte{}, x.Orig...)
		}
		b, err := encMode.Marshal(fold(x.Doc))
		if err != nil {
			return []byte{}
		}
		return append(append([]byte{}, x.Prefix...), b...)
	case RawItem:
		return cbor.RawMessage(x)
	}
	return v
}

func clone(v interface{}) interface{} {
	switch x := v.(type) {
	case map[interface{}]interface{}:
		m := make(map[interface{}]interface{}, len(x))
		for k, e := range x {
			m[k] = clone(e)
		}
		return m
	case []interface{}:
		a := make([]interface{}, len(x))
		for i, e := range x {
			a[i] = clone(e)
		}
		return a
	case []byte:
		return append([]byte{}, x...)
	case *Wrapped:
		return &Wrapped{Prefix: append([]byte{}, x.Prefix...), Doc: clone(x.Doc), Orig: x.Orig, Dirty: x.Dirty}
	}
	return v
}

// Site is one node of the tree, addressed by a path of keys / positions.
type Site struct {
	Path string // e.g. /Public[first]/N
	Kind string // bytes | uint | int | text | bool | nil | map | array | wrapped | float | other
	Len  int
	keys []interface{}
}

// Sites enumerates nodes; arrays longer than maxFan are sampled at first/middle/last.
func Sites(root interface{}, maxFan int) []Site {
	var out []Site
	var walk func(v interface{}, path string, keys []interface{})
	walk = func(v interface{}, path string, keys []interface{}) {
		s := Site{Path: path, keys: append([]interface{}{}, keys...)}
		switch x := v.(type) {
		case map[interface{}]interface{}:
			s.Kind, s.Len = "map", len(x)
			out = append(out, s)
			ks := make([]interface{}, 0, len(x))
			for k := range x {
				ks = append(ks, k)
			}
			sort.Slice(ks, func(i, j int) bool { return fmt.Sprint(ks[i]) < fmt.Sprint(ks[j]) })
			// maps are struct fields or per-party tables: always enumerated completely (only arrays are sampled)
			fan := maxFan
			if fan < 40 {
				fan = 40
			}
			idx := pickIdx(len(ks), fan)
			for _, i := range idx {
				k := ks[i]
				name := fmt.Sprint(k)
				if len(ks) > fan {
					name = "{" + pos(i, len(ks)) + "}"
				}
				walk(x[k], path+"/"+name, append(keys, k))
			}
			return
		case []interface{}:
			s.Kind, s.Len = "array", len(x)
			out = append(out, s)
			for _, i := range pickIdx(len(x), maxFan) {
				walk(x[i], fmt.Sprintf("%s[%s]", path, pos(i, len(x))), append(keys, i))
			}
			return
		case *Wrapped:
			s.Kind = "wrapped"
			out = append(out, s)
			walk(x.Doc, path+"<>", append(keys, "<>"))
			return
		case []byte:
			s.Kind, s.Len = "bytes", len(x)
		case uint64:
			s.Kind = "uint"
		case int64:
			s.Kind = "int"
		case string:
			s.Kind, s.Len = "text", len(x)
		case bool:
			s.Kind = "bool"
		case nil:
			s.Kind = "nil"
		default:
			s.Kind = "other"
		}
		out = append(out, s)
	}
	walk(root, "", nil)
	return out
}

func pickIdx(n, maxFan int) []int {
	if n <= maxFan {
		idx := make([]int, n)
		for i := range idx {
			idx[i] = i
		}
		return idx
	}
	return []int{0, n / 2, n - 1}
}

func pos(i, n int) string {
	switch {
	case n <= 4:
		return fmt.Sprint(i)
	case i == 0:
		return "first"
	case i == n-1:
		return "last"
	}
	return "mid"
}

// Get returns the node at a site.
func Get(root interface{}, s Site) interface{} {
	v := root
	for _, k := range s.keys {
		switch x := v.(type) {
		case map[interface{}]interface{}:
			v = x[k]
		case []interface{}:
			v = x[k.(int)]
		case *Wrapped:
			v = x.Doc
		}
	}
	return v
}

// With returns a deep copy of root in which the node at s is replaced by f(old) (del=true removes it from its parent).
func With(root interface{}, s Site, nv interface{}, del bool) interface{} {
	c := clone(root)
	if len(s.keys) == 0 {
		return nv
	}
	v := c
	for _, k := range s.keys[:len(s.keys)-1] {
		switch x := v.(type) {
		case map[interface{}]interface{}:
			v = x[k]
		case []interface{}:
			v = x[k.(int)]
		case *Wrapped:
			x.Dirty = true
			v = x.Doc
		}
	}
	last := s.keys[len(s.keys)-1]
	switch x := v.(type) {
	case map[interface{}]interface{}:
		if del {
			delete(x, last)
		} else {
			x[last] = nv
		}
	case []interface{}:
		i := last.(int)
		if del {
			// cannot shrink in place through the parent pointer; replace by rebuilding the parent
			na := append(append([]interface{}{}, x[:i]...), x[i+1:]...)
			return With(root, Site{keys: s.keys[:len(s.keys)-1]}, clone(na), false)
		}
		x[i] = nv
	case *Wrapped:
		x.Dirty = true
		x.Doc = nv
	}
	return c
}

// Mutation is a named replacement for a node.
type Mutation struct {
	Name string
	New  interface{}
	Del  bool
}

func u32(v uint32) []byte { b := make([]byte, 4); binary.BigEndian.PutUint32(b, v); return b }

// Mutations lists the malformations applicable to a node. bomb enables the large-allocation variants.
func Mutations(node interface{}, s Site, bomb bool) []Mutation {
	var ms []Mutation
	add := func(n string, v interface{}) { ms = append(ms, Mutation{Name: n, New: v}) }
	add("null", nil)
	ms = append(ms, Mutation{Name: "deleted", Del: true})
	switch x := node.(type) {
	case []byte:
		add("empty", []byte{})
		if len(x) > 0 {
			add("truncate1", append([]byte{}, x[:len(x)-1]...))
			fl := append([]byte{}, x...)
			fl[len(fl)/2] ^= 0x10
			add("bitflip", fl)
			add("zero", make([]byte, len(x)))
			add("ff", bytes.Repeat([]byte{0xff}, len(x)))
			if len(x) > 1 {
				lo := append([]byte{}, x...)
				lo[len(lo)-1] ^= 1
				add("lowbit", lo)
			}
		}
		add("extend1", append(append([]byte{}, x...), 0x01))
		for _, l := range []int{1, 3, 31, 33} {
			if l != len(x) {
				add(fmt.Sprintf("len%d", l), bytes.Repeat([]byte{0x02}, l))
			}
		}
		add("len4096", bytes.Repeat([]byte{0x7f}, 4096))
		if bomb {
			add("len1MiB", bytes.Repeat([]byte{0x41}, 1<<20))
			add("prefix-ffffffff", append(u32(0xffffffff), x...))
		}
		add("prefix-0", append(u32(0), x...))
		add("type-uint", uint64(7))
		add("type-text", "x")
		add("type-array", []interface{}{})
		add("type-map", map[interface{}]interface{}{})
		add("type-bool", true)
		add("type-negint", int64(-5))
	case uint64:
		for _, v := range []uint64{0, 1, x + 1, 65535, 1 << 32, 1<<64 - 1} {
			if v != x {
				add(fmt.Sprintf("uint=%d", v), v)
			}
		}
		if x > 0 {
			add("minus1", x-1)
		}
		add("negative", int64(-1))
		add("type-bytes", []byte{1})
		add("type-text", "1")
		add("type-float", 1.5)
	case int64:
		add("uint=0", uint64(0))
		add("uint-max", uint64(1<<64-1))
		add("type-bytes", []byte{1})
	case string:
		add("empty", "")
		add("other", x+"x")
		add("long", string(bytes.Repeat([]byte("a"), 5000)))
		add("type-uint", uint64(3))
		add("type-bytes", []byte(x))
		add("invalid-utf8", RawItem(append([]byte{0x62}, 0xff, 0xfe)))
	case bool:
		add("flipped", !x)
		add("type-uint", uint64(1))
	case map[interface{}]interface{}:
		add("empty-map", map[interface{}]interface{}{})
		add("type-array", []interface{}{})
		add("type-uint", uint64(0))
		add("type-bytes", []byte{})
		ex := clone(x).(map[interface{}]interface{})
		ex["__unknown"] = uint64(1)
		add("extra-key", ex)
		if bomb {
			big := map[interface{}]interface{}{}
			for i := 0; i < 100000; i++ {
				big[uint64(i)] = uint64(0)
			}
			add("map-100k", big)
		}
	case []interface{}:
		add("empty-array", []interface{}{})
		add("type-map", map[interface{}]interface{}{})
		add("type-uint", uint64(0))
		add("type-bytes", []byte{})
		if len(x) > 0 {
			add("drop-last", clone(x[:len(x)-1]))
			add("drop-first", clone(x[1:]))
			add("dup-last", append(clone(x).([]interface{}), clone(x[len(x)-1])))
			add("append-junk", append(clone(x).([]interface{}), uint64(0)))
			add("append-null", append(clone(x).([]interface{}), nil))
			if len(x) > 1 {
				sw := clone(x).([]interface{})
				sw[0], sw[len(sw)-1] = sw[len(sw)-1], sw[0]
				add("swap-ends", sw)
			}
		}
		if bomb {
			add("array-100k", make([]interface{}, 100000))
			// declared length far beyond the data
			add("declared-2^32", RawItem([]byte{0x9a, 0xff, 0xff, 0xff, 0xff, 0x00}))
		}
		deep := interface{}(uint64(0))
		for i := 0; i < 60; i++ {
			deep = []interface{}{deep}
		}
		add("depth-60", deep)
		add("indefinite", RawItem([]byte{0x9f, 0x00, 0xff}))
	case *Wrapped:
		add("wrapped-empty", []byte{})
		add("wrapped-prefix-only", append([]byte{}, x.Prefix...))
		if len(x.Prefix) == 4 {
			inner, _ := Encode(x.Doc)
			add("wrapped-prefix-0", append(u32(0), inner...))
			add("wrapped-prefix-plus1", append(u32(binary.BigEndian.Uint32(x.Prefix)+1), inner...))
			add("wrapped-3-bytes", []byte{0, 0, 1})
			if bomb {
				add("wrapped-prefix-ffffffff", append(u32(0xffffffff), inner...))
				add("wrapped-prefix-2^26", append(u32(1<<26), inner...))
				// counts that wrap a 32-bit product with a small element size: ceil(2^32/k)
				for k := uint64(2); k <= 64; k++ {
					v := ((uint64(1) << 32) + k - 1) / k
					add(fmt.Sprintf("wrapped-prefix-ceil(2^32/%d)", k), append(u32(uint32(v)), inner...))
				}
			}
		}
		add("type-uint", uint64(0))
	}
	return ms
}

// Variant is one mutated encoding.
type Variant struct {
	Path, Kind, Mutation string
	Data                 []byte
}

// Variants enumerates single-node malformations of an encoded document.
func Variants(data []byte, maxFan int, bomb bool) ([]Variant, error) {
	root, err := Decode(data)
	if err != nil {
		return nil, err
	}
	var out []Variant
	for _, s := range Sites(root, maxFan) {
		node := Get(root, s)
		for _, m := range Mutations(node, s, bomb) {
			if len(s.keys) == 0 && m.Del {
				continue
			}
			nr := With(root, s, m.New, m.Del)
			b, err := Encode(nr)
			if err != nil {
				continue
			}
			out = append(out, Variant{Path: s.Path, Kind: s.Kind, Mutation: m.Name, Data: b})
		}
	}
	return out, nil
}

// Describe renders a tree compactly (for samples and debugging).
func Describe(v interface{}, depth int) string {
	switch x := v.(type) {
	case map[interface{}]interface{}:
		if depth <= 0 {
			return "{..}"
		}
		ks := make([]string, 0, len(x))
		for k, e := range x {
			ks = append(ks, fmt.Sprintf("%v:%s", k, Describe(e, depth-1)))
		}
		sort.Strings(ks)
		return fmt.Sprintf("{%v}", ks)
	case []interface{}:
		if depth <= 0 || len(x) == 0 {
			return fmt.Sprintf("[%d]", len(x))
		}
		return fmt.Sprintf("[%d x %s]", len(x), Describe(x[0], depth-1))
	case []byte:
		return fmt.Sprintf("b%d", len(x))
	case *Wrapped:
		return "W" + Describe(x.Doc, depth)
	}
	return fmt.Sprintf("%v", v)
}

// Canonical re-encodes a document with every nested document re-serialised in canonical key order
// (for comparing encodings up to map order).
func Canonical(data []byte) ([]byte, error) {
	root, err := Decode(data)
	if err != nil {
		return nil, err
	}
	var mark func(v interface{})
	mark = func(v interface{}) {
		switch x := v.(type) {
		case map[interface{}]interface{}:
			for _, e := range x {
				mark(e)
			}
		case []interface{}:
			for _, e := range x {
				mark(e)
			}
		case *Wrapped:
			x.Dirty = true
			mark(x.Doc)
		}
	}
	mark(root)
	return Encode(root)
}
