package adv

import (
	"bytes"
	"math/big"

	"github.com/taurusgroup/multi-party-sig/verif/ref"
	"github.com/taurusgroup/multi-party-sig/verif/vk"
)

// Pool collects byte strings seen in a session, by length, so that a field can be
// replaced by "another well-formed value of the same kind from the transcript".
type Pool struct{ byLen map[int][][]byte }

func NewPool() *Pool { return &Pool{byLen: map[int][][]byte{}} }

// AddTree records every byte string of a decoded document.
func (p *Pool) AddTree(v interface{}) {
	switch x := v.(type) {
	case map[interface{}]interface{}:
		for _, e := range x {
			p.AddTree(e)
		}
	case []interface{}:
		for _, e := range x {
			p.AddTree(e)
		}
	case *Wrapped:
		p.AddTree(x.Doc)
	case []byte:
		if len(x) >= 16 {
			l := p.byLen[len(x)]
			if len(l) < 64 {
				p.byLen[len(x)] = append(l, append([]byte{}, x...))
			}
		}
	}
}

// Other returns a recorded string of the same length that differs from b.
func (p *Pool) Other(b []byte, r *vk.Rand) []byte {
	l := p.byLen[len(b)]
	if len(l) == 0 {
		return nil
	}
	start := r.Intn(len(l))
	for i := 0; i < len(l); i++ {
		c := l[(start+i)%len(l)]
		if !bytes.Equal(c, b) {
			return append([]byte{}, c...)
		}
	}
	return nil
}

// TypedNames lists the content-level alterations for a node (what a deviating participant would send).
func TypedNames(node interface{}) []string {
	switch x := node.(type) {
	case []byte:
		switch {
		case len(x) == 33 && (x[0] == 2 || x[0] == 3):
			return []string{"point-negated", "point-generator", "point-identity-encoding", "point-random", "from-transcript", "bitflip"}
		case len(x) == 32:
			return []string{"scalar-zero", "scalar-one", "scalar-minus-one", "scalar-negated", "plus-one", "random", "from-transcript", "bitflip"}
		case len(x) == 64:
			return []string{"zero", "random", "from-transcript", "bitflip"}
		case len(x) >= 100:
			return []string{"number-zero", "number-one", "plus-one", "minus-one", "random", "from-transcript", "bitflip", "truncate1", "sign-flip"}
		case len(x) > 0:
			return []string{"bitflip", "zero", "truncate1", "random", "from-transcript"}
		default:
			return []string{"nonempty"}
		}
	case bool:
		return []string{"flipped"}
	case uint64:
		return []string{"plus-one", "zero"}
	case int64:
		return []string{"zero"}
	case string:
		return []string{"other-text"}
	case []interface{}:
		if len(x) > 0 {
			return []string{"drop-last", "dup-last", "swap-ends", "empty-array"}
		}
	case *Wrapped:
		return nil
	}
	return nil
}

func addBig(b []byte, d int64) []byte {
	v := new(big.Int).SetBytes(b)
	v.Add(v, big.NewInt(d))
	if v.Sign() < 0 {
		v.SetInt64(0)
	}
	out := make([]byte, len(b))
	vb := v.Bytes()
	if len(vb) > len(out) {
		return bytes.Repeat([]byte{0xff}, len(b))
	}
	copy(out[len(out)-len(vb):], vb)
	return out
}

// ApplyTyped returns the altered node (ok=false when the alteration is not applicable or would not change the value).
func ApplyTyped(node interface{}, name string, pool *Pool, r *vk.Rand) (interface{}, bool) {
	switch x := node.(type) {
	case []byte:
		var out []byte
		switch name {
		case "point-negated":
			out = append([]byte{}, x...)
			out[0] ^= 1
		case "point-generator":
			out = ref.G().Compress()
		case "point-identity-encoding":
			out = make([]byte, 33)
			out[0] = 2
		case "point-random":
			out = ref.MulG(new(big.Int).SetBytes(r.Bytes(32))).Compress()
		case "scalar-zero", "zero", "number-zero":
			out = make([]byte, len(x))
		case "scalar-one", "number-one":
			out = make([]byte, len(x))
			out[len(out)-1] = 1
		case "scalar-minus-one":
			out = make([]byte, 32)
			new(big.Int).Sub(ref.Q, big.NewInt(1)).FillBytes(out)
		case "scalar-negated":
			v := new(big.Int).SetBytes(x)
			if v.Sign() == 0 || v.Cmp(ref.Q) >= 0 {
				return nil, false
			}
			out = make([]byte, 32)
			new(big.Int).Sub(ref.Q, v).FillBytes(out)
		case "plus-one":
			out = addBig(x, 1)
		case "minus-one":
			out = addBig(x, -1)
		case "random":
			out = r.Bytes(len(x))
			if len(x) >= 100 {
				out[0] &= x[0] // keep it roughly below the original magnitude
			}
		case "from-transcript":
			if pool == nil {
				return nil, false
			}
			out = pool.Other(x, r)
			if out == nil {
				return nil, false
			}
		case "bitflip":
			out = append([]byte{}, x...)
			out[r.Intn(len(out))] ^= 1 << uint(r.Intn(8))
		case "truncate1":
			out = append([]byte{}, x[:len(x)-1]...)
		case "sign-flip":
			// saferith.Int encodings carry their sign in the first byte
			out = append([]byte{}, x...)
			out[0] ^= 1
		case "nonempty":
			out = []byte{1}
		default:
			return nil, false
		}
		if bytes.Equal(out, x) {
			return nil, false
		}
		return out, true
	case bool:
		return !x, true
	case uint64:
		if name == "zero" {
			if x == 0 {
				return nil, false
			}
			return uint64(0), true
		}
		return x + 1, true
	case int64:
		if x == 0 {
			return nil, false
		}
		return int64(0), true
	case string:
		return x + "x", true
	case []interface{}:
		if len(x) == 0 {
			return nil, false
		}
		switch name {
		case "drop-last":
			return clone(x[:len(x)-1]), true
		case "dup-last":
			return append(clone(x).([]interface{}), clone(x[len(x)-1])), true
		case "swap-ends":
			if len(x) < 2 {
				return nil, false
			}
			c := clone(x).([]interface{})
			c[0], c[len(c)-1] = c[len(c)-1], c[0]
			return c, true
		case "empty-array":
			return []interface{}{}, true
		}
	}
	return nil, false
}
