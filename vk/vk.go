// Package vk is the small framework shared by all checks: case lists, a
// journalled child runner, result records, deterministic PRNG streams.
package vk

import (
	"bufio"
	"encoding/json"
	"fmt"
	"hash/fnv"
	"os"
	"regexp"
	"runtime"
	"runtime/debug"
	"sort"
	"strconv"
	"strings"
	"sync"
)

// Rand is a splitmix64 stream.
type Rand struct{ s uint64 }

func NewRand(seed uint64) *Rand { return &Rand{s: seed} }
func (r *Rand) U64() uint64 {
	r.s += 0x9E3779B97F4A7C15
	z := r.s
	z = (z ^ (z >> 30)) * 0xBF58476D1CE4E5B9
	z = (z ^ (z >> 27)) * 0x94D049BB133111EB
	return z ^ (z >> 31)
}
func (r *Rand) Intn(n int) int {
	if n <= 0 {
		return 0
	}
	return int(r.U64() % uint64(n))
}
func (r *Rand) Bool() bool { return r.U64()&1 == 1 }
func (r *Rand) Bytes(n int) []byte {
	b := make([]byte, n)
	for i := 0; i < n; i += 8 {
		v := r.U64()
		for j := 0; j < 8 && i+j < n; j++ {
			b[i+j] = byte(v >> (8 * j))
		}
	}
	return b
}
func (r *Rand) Read(p []byte) (int, error) { copy(p, r.Bytes(len(p))); return len(p), nil }
func (r *Rand) Perm(n int) []int {
	p := make([]int, n)
	for i := range p {
		p[i] = i
	}
	for i := n - 1; i > 0; i-- {
		j := r.Intn(i + 1)
		p[i], p[j] = p[j], p[i]
	}
	return p
}
func (r *Rand) Fork(label string) *Rand {
	h := fnv.New64a()
	h.Write([]byte(label))
	return NewRand(r.s ^ h.Sum64() ^ 0xA5A5A5A5DEADBEEF)
}

func HashStr(s string) uint64 { h := fnv.New64a(); h.Write([]byte(s)); return h.Sum64() }

// Env is the per-run configuration.
type Env struct {
	Seed int64
	Tier string // quick | thorough
}

func (e Env) Thorough() bool { return e.Tier == "thorough" }

// Pick returns q for quick and t for thorough.
func (e Env) Pick(q, t int) int {
	if e.Thorough() {
		return t
	}
	return q
}
func (e Env) Rand(label string) *Rand {
	return NewRand(uint64(e.Seed)*0x9E3779B97F4A7C15 + 0x1234567).Fork(label)
}

// Violation is one refuting observation.
type Violation struct {
	Key    string `json:"key"`
	Detail string `json:"detail"`
}

// Result is what a case reports.
type Result struct {
	Idx          int              `json:"idx"`
	Case         string           `json:"case"`
	Violations   []Violation      `json:"violations,omitempty"`
	Inconclusive []string         `json:"inconclusive,omitempty"`
	Obs          map[string]int64 `json:"obs,omitempty"`
	Distinct     []string         `json:"distinct,omitempty"`
	Samples      []any            `json:"samples,omitempty"`
	Panic        string           `json:"panic,omitempty"`
}

// T is handed to a running case.
type T struct {
	Env  Env
	Rng  *Rand
	mu   sync.Mutex
	res  *Result
	dset map[string]bool
	jf   *os.File
}

// Note journals the sub-input about to be executed, so that a process death
// (panic in a foreign goroutine, fatal error, OOM) can be attributed to it.
// key is the finding-key suffix, detail any replay information.
func (t *T) Note(key, detail string) {
	if t.jf == nil {
		return
	}
	b, _ := json.Marshal(map[string]string{"note": key, "detail": detail})
	t.mu.Lock()
	t.jf.Write(append(b, '\n'))
	t.mu.Unlock()
}

func (t *T) Violation(key, format string, a ...any) {
	t.mu.Lock()
	defer t.mu.Unlock()
	for _, v := range t.res.Violations {
		if v.Key == key {
			return
		}
	}
	if len(t.res.Violations) < 200 {
		v := Violation{Key: key, Detail: fmt.Sprintf(format, a...)}
		t.res.Violations = append(t.res.Violations, v)
		// written through at once: a verdict must survive a case that never ends afterwards (e.g. when the defect it
		// reports leaves a goroutine spinning or a lock held and the supervisor's watchdog has to kill the child)
		if t.jf != nil {
			b, _ := json.Marshal(map[string]string{"early_violation": v.Key, "detail": v.Detail, "case": t.res.Case})
			t.jf.Write(append(b, '\n'))
		}
	}
}
func (t *T) Inconclusive(format string, a ...any) {
	t.mu.Lock()
	defer t.mu.Unlock()
	if len(t.res.Inconclusive) < 20 {
		t.res.Inconclusive = append(t.res.Inconclusive, fmt.Sprintf(format, a...))
	}
}
func (t *T) Obs(name string, d int64) {
	t.mu.Lock()
	defer t.mu.Unlock()
	t.res.Obs[name] += d
}

// ObsMax records the maximum of a measured quantity.
func (t *T) ObsMax(name string, v int64) {
	t.mu.Lock()
	defer t.mu.Unlock()
	if v > t.res.Obs["max:"+name] {
		t.res.Obs["max:"+name] = v
	}
}

// Distinct registers a distinct non-trivial case key.
func (t *T) Distinct(format string, a ...any) {
	k := fmt.Sprintf(format, a...)
	t.mu.Lock()
	defer t.mu.Unlock()
	if !t.dset[k] {
		t.dset[k] = true
		t.res.Distinct = append(t.res.Distinct, k)
	}
}
func (t *T) Sample(v any) {
	t.mu.Lock()
	defer t.mu.Unlock()
	if len(t.res.Samples) < 2 {
		t.res.Samples = append(t.res.Samples, v)
	}
}

// Case is one unit of work, run in a child with journalling.
type Case struct {
	ID  string
	Run func(t *T)
}

// Check describes a property check.
type Check struct {
	ID    string
	Level string // exploration | fault_enumeration
	Race  bool   // build/run the child with the race detector
	// Cases returns the deterministic case list for env.
	Cases func(env Env) []Case
	// Rule documents how cases are generated and what counts as distinct non-trivial.
	Rule string
	// MinDistinct is the floor of distinct non-trivial observations below which the run fails itself (exit 2).
	MinDistinct int
	Assumptions []string
	// CaseTimeoutS is the supervisor's wall-clock watchdog per case (inconclusive when it fires).
	CaseTimeoutS int
	// Workers overrides the number of parallel children (0 = default).
	Workers int
	// MemLimitMB sets RLIMIT_AS for the child when >0 (not with Race).
	MemLimitMB int
}

var registry = map[string]*Check{}

func Register(c *Check)       { registry[c.ID] = c }
func Lookup(id string) *Check { return registry[id] }
func IDs() []string {
	var s []string
	for k := range registry {
		s = append(s, k)
	}
	sort.Strings(s)
	return s
}

// RepoFrame returns the innermost non-runtime frame of a panic stack that belongs to the repository or to one of its
// dependencies (harness frames are skipped); repository frames are shown without the module prefix.
func RepoFrame(stack string) string {
	for _, l := range strings.Split(stack, "\n") {
		if !strings.HasPrefix(l, "github.com/") || strings.Contains(l, "multi-party-sig/verif/") {
			continue
		}
		if j := strings.LastIndex(l, "("); j > 0 {
			l = l[:j]
		}
		return strings.TrimPrefix(l, "github.com/taurusgroup/multi-party-sig/")
	}
	return "unknown"
}

// HarnessErrPrefix marks panics raised by the harness itself when an observation point is missing; they make the
// case inconclusive instead of a violation.
const HarnessErrPrefix = "HARNESS-CANNOT-OBSERVE: "

// Guard runs f and converts a panic into (true, frame, text).
func Guard(f func()) (panicked bool, frame string, text string) {
	defer func() {
		if r := recover(); r != nil {
			st := string(debug.Stack())
			if s, ok := r.(interface{ StackText() string }); ok {
				st = s.StackText() // the panic happened in another goroutine: use its stack
			}
			panicked = true
			frame = RepoFrame(st)
			text = fmt.Sprint(r)
			if len(text) > 300 {
				text = text[:300]
			}
		}
	}()
	f()
	return
}

// ChildMain is the entry point of the child binary.
//
//	vchild -check ID -tier T -seed S -list            -> prints the number of cases
//	vchild -check ID -tier T -seed S -journal F       -> reads indices on stdin, runs them
//	vchild -check ID -tier T -seed S -journal F -only CASEID
func ChildMain(args []string) int {
	var id, tier, journal, only string
	var seed int64 = 1
	list := false
	names := false
	for i := 0; i < len(args); i++ {
		switch args[i] {
		case "-check":
			i++
			id = args[i]
		case "-tier":
			i++
			tier = args[i]
		case "-seed":
			i++
			seed, _ = strconv.ParseInt(args[i], 10, 64)
		case "-journal":
			i++
			journal = args[i]
		case "-only":
			i++
			only = args[i]
		case "-list":
			list = true
		case "-names":
			names = true
		}
	}
	ck := Lookup(id)
	if ck == nil {
		fmt.Fprintln(os.Stderr, "unknown check", id)
		return 2
	}
	env := Env{Seed: seed, Tier: tier}
	cases := ck.Cases(env)
	if re := os.Getenv("VERIF_ONLY_CASES"); re != "" { // debugging aid: restrict the case list (not used by registered commands)
		if rx, err := regexp.Compile(re); err == nil {
			var f []Case
			for _, c := range cases {
				if rx.MatchString(c.ID) {
					f = append(f, c)
				}
			}
			cases = f
		}
	}
	if names {
		for i, c := range cases {
			fmt.Printf("%d\t%s\n", i, c.ID)
		}
		return 0
	}
	if list {
		fmt.Println(len(cases))
		return 0
	}
	if ck.MemLimitMB > 0 && !ck.Race {
		setMemLimit(uint64(ck.MemLimitMB) << 20)
	}
	jf, err := os.OpenFile(journal, os.O_CREATE|os.O_WRONLY|os.O_APPEND, 0o644)
	if err != nil {
		fmt.Fprintln(os.Stderr, err)
		return 2
	}
	defer jf.Close()
	runOne := func(idx int) {
		c := cases[idx]
		fmt.Fprintf(jf, "{\"begin\":%d,\"case\":%q}\n", idx, c.ID)
		res := &Result{Idx: idx, Case: c.ID, Obs: map[string]int64{}}
		t := &T{Env: env, Rng: env.Rand(ck.ID + "|" + c.ID), res: res, dset: map[string]bool{}, jf: jf}
		p, frame, text := Guard(func() { c.Run(t) })
		if p && (strings.HasPrefix(text, HarnessErrPrefix) || frame == "unknown") {
			// (frame "unknown": no library frame anywhere on the panicking stack - the harness itself failed)
			// the harness could not observe what it needs (e.g. an unexported field it reads by name is gone):
			// nothing was decided
			t.Inconclusive("case %s: %s", c.ID, text)
		} else if p {
			res.Panic = text
			t.Violation("panic-in-harness-goroutine|"+frame, "case %s panicked: %s", c.ID, text)
		}
		t.mu.Lock()
		b, err := json.Marshal(res)
		t.mu.Unlock()
		if err != nil {
			b, _ = json.Marshal(&Result{Idx: idx, Case: c.ID, Inconclusive: []string{"unmarshalable result: " + err.Error()}})
		}
		jf.Write(append(b, '\n'))
	}
	if only != "" {
		for i, c := range cases {
			if c.ID == only {
				runOne(i)
				return 0
			}
		}
		fmt.Fprintln(os.Stderr, "case not found:", only)
		return 2
	}
	sc := bufio.NewScanner(os.Stdin)
	out := bufio.NewWriter(os.Stdout)
	for sc.Scan() {
		idx, err := strconv.Atoi(strings.TrimSpace(sc.Text()))
		if err != nil || idx < 0 || idx >= len(cases) {
			continue
		}
		runOne(idx)
		fmt.Fprintf(out, "done %d\n", idx)
		out.Flush()
	}
	_ = runtime.NumGoroutine
	return 0
}
