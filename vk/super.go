package vk

import (
	"bufio"
	"crypto/sha256"
	"encoding/hex"
	"encoding/json"
	"fmt"
	"os"
	"os/exec"
	"path/filepath"
	"regexp"
	"runtime"
	"sort"
	"strconv"
	"strings"
	"sync"
	"syscall"
	"time"
)

const Root = "/verif"

type knownEntry struct {
	Property string `json:"property"`
	Key      string `json:"key"`
	Status   string `json:"status"` // known | fixed
	Commit   string `json:"commit,omitempty"`
	What     string `json:"what"`
}

func loadKnown() []knownEntry {
	var out []knownEntry
	f, err := os.Open(filepath.Join(Root, "known_findings.jsonl"))
	if err != nil {
		return nil
	}
	defer f.Close()
	sc := bufio.NewScanner(f)
	sc.Buffer(make([]byte, 1<<20), 1<<20)
	for sc.Scan() {
		l := strings.TrimSpace(sc.Text())
		if l == "" || strings.HasPrefix(l, "#") {
			continue
		}
		var e knownEntry
		if json.Unmarshal([]byte(l), &e) == nil {
			out = append(out, e)
		}
	}
	return out
}

func goEnv() []string {
	env := os.Environ()
	env = append(env, "GOFLAGS=-mod=mod", "GOPROXY=off", "GOSUMDB=off", "GOTOOLCHAIN=local")
	return env
}

// altTree: VERIF_ALT_REPO=<dir> evaluates a scratch copy of the library instead of /repo (used only to try
// seeded changes while /repo is busy); binaries, work files, evidence and replays then live under work/alt-<tag>/
// so that nothing of the registered state is touched.
func altTree() (dir, tag string) {
	dir = os.Getenv("VERIF_ALT_REPO")
	if dir == "" {
		return "", ""
	}
	h := sha256.Sum256([]byte(dir))
	return dir, hex.EncodeToString(h[:4])
}

func outRoot() string {
	if _, tag := altTree(); tag != "" {
		return filepath.Join(Root, "work", "alt-"+tag)
	}
	return Root
}

func buildChild(race bool) (string, error) {
	out := filepath.Join(outRoot(), "bin", "vchild")
	os.MkdirAll(filepath.Dir(out), 0o755)
	args := []string{"build", "-tags", "verif"}
	if dir, _ := altTree(); dir != "" {
		gm, err := os.ReadFile(filepath.Join(Root, "go.mod"))
		if err != nil {
			return "", err
		}
		mf := filepath.Join(outRoot(), "go.mod")
		os.WriteFile(mf, []byte(strings.Replace(string(gm), "=> /repo", "=> "+dir, 1)), 0o644)
		gs, _ := os.ReadFile(filepath.Join(Root, "go.sum"))
		os.WriteFile(filepath.Join(outRoot(), "go.sum"), gs, 0o644)
		args = append(args, "-modfile="+mf)
	}
	if race {
		out += "-race"
		args = append(args, "-race")
	}
	args = append(args, "-o", out, "./cmd/v")
	cmd := exec.Command("go", args...)
	cmd.Dir = Root
	cmd.Env = goEnv()
	b, err := cmd.CombinedOutput()
	if err != nil {
		return "", fmt.Errorf("build failed: %v\n%s", err, b)
	}
	return out, nil
}

type foundViolation struct {
	Key, Detail, Case string
}

var frameRe = regexp.MustCompile(`(?m)^(github\.com/taurusgroup/multi-party-sig/[^\s(]+)`)

func crashFrame(stderr string) (kind string, frame string) {
	kind = "death"
	i := strings.Index(stderr, "panic: ")
	j := strings.Index(stderr, "fatal error: ")
	start := -1
	if i >= 0 {
		kind, start = "panic", i
	}
	if j >= 0 && (start < 0 || j < start) {
		kind, start = "fatal", j
	}
	if start < 0 {
		return kind, "unknown"
	}
	rest := stderr[start:]
	if strings.Contains(rest[:min(len(rest), 200)], "out of memory") || strings.Contains(rest[:min(len(rest), 200)], "cannot allocate memory") {
		kind = "oom"
	}
	// first goroutine block after the message
	g := strings.Index(rest, "\ngoroutine ")
	if g >= 0 {
		blk := rest[g+1:]
		if e := strings.Index(blk, "\n\n"); e > 0 {
			blk = blk[:e]
		}
		fr := RepoFrame(blk)
		return kind, fr
	}
	return kind, "unknown"
}

func min(a, b int) int {
	if a < b {
		return a
	}
	return b
}

// SuperMain runs a check end to end.  Returns the process exit code.
func SuperMain(args []string) int {
	if len(args) < 1 {
		fmt.Fprintln(os.Stderr, "usage: v check <ID> [--tier quick|thorough] [--replay file]")
		return 2
	}
	id := args[0]
	tier := os.Getenv("VERIF_TIER")
	replay := ""
	for i := 1; i < len(args); i++ {
		switch args[i] {
		case "--tier":
			i++
			tier = args[i]
		case "--replay":
			i++
			replay = args[i]
		}
	}
	if tier != "thorough" {
		tier = "quick"
	}
	seed := int64(1)
	if s := os.Getenv("VERIF_SEED"); s != "" {
		if v, err := strconv.ParseInt(s, 10, 64); err == nil {
			seed = v
		}
	}
	ck := Lookup(id)
	if ck == nil {
		fmt.Fprintln(os.Stderr, "unknown check", id)
		return 2
	}
	start := time.Now()
	bin, err := buildChild(ck.Race)
	if err != nil {
		fmt.Fprintln(os.Stderr, err)
		return 2
	}
	work := filepath.Join(outRoot(), "work", id)
	os.RemoveAll(work)
	os.MkdirAll(work, 0o755)
	common := []string{"child", "-check", id, "-tier", tier, "-seed", strconv.FormatInt(seed, 10)}

	if replay != "" {
		var rp struct {
			Case string `json:"case"`
			Seed int64  `json:"seed"`
			Tier string `json:"tier"`
		}
		b, err := os.ReadFile(replay)
		if err != nil || json.Unmarshal(b, &rp) != nil {
			fmt.Fprintln(os.Stderr, "cannot read replay file")
			return 2
		}
		j := filepath.Join(work, "replay.jsonl")
		cmd := exec.Command(bin, "child", "-check", id, "-tier", rp.Tier, "-seed", strconv.FormatInt(rp.Seed, 10), "-journal", j, "-only", rp.Case)
		cmd.Stderr = os.Stderr
		cmd.Stdout = os.Stdout
		cmd.Env = childEnv(ck, work)
		cmd.Run()
		out, _ := os.ReadFile(j)
		fmt.Print(string(out))
		return 0
	}

	// number of cases
	lc := exec.Command(bin, append(common, "-list")...)
	lc.Env = childEnv(ck, work)
	lb, err := lc.Output()
	if err != nil {
		fmt.Fprintln(os.Stderr, "list failed:", err)
		return 2
	}
	total, _ := strconv.Atoi(strings.TrimSpace(string(lb)))
	if total == 0 {
		fmt.Fprintln(os.Stderr, "no cases")
		return 2
	}
	workers := ck.Workers
	if workers <= 0 {
		workers = runtime.NumCPU() - 2
		if workers < 1 {
			workers = 1
		}
	}
	if workers > total {
		workers = total
	}
	caseTimeout := time.Duration(ck.CaseTimeoutS) * time.Second
	if caseTimeout == 0 {
		caseTimeout = 15 * time.Minute
	}

	var mu sync.Mutex
	next := 0
	var crashes []foundViolation
	var inconclusive []string
	deaths := 0
	takeIdx := func() int {
		mu.Lock()
		defer mu.Unlock()
		if next >= total {
			return -1
		}
		i := next
		next++
		return i
	}
	var wg sync.WaitGroup
	for w := 0; w < workers; w++ {
		wg.Add(1)
		go func(w int) {
			defer wg.Done()
			gen := 0
			for {
				idx := takeIdx()
				if idx < 0 {
					return
				}
				// (re)spawn a child and feed it indices until it dies or we run out
				gen++
				journal := filepath.Join(work, fmt.Sprintf("journal.%d.jsonl", w))
				errPath := filepath.Join(work, fmt.Sprintf("stderr.%d.%d.txt", w, gen))
				errF, _ := os.Create(errPath)
				cmd := exec.Command(bin, append(common, "-journal", journal)...)
				cmd.Env = childEnv(ck, work)
				cmd.Stderr = errF
				stdin, _ := cmd.StdinPipe()
				stdout, _ := cmd.StdoutPipe()
				if err := cmd.Start(); err != nil {
					mu.Lock()
					inconclusive = append(inconclusive, "cannot start child: "+err.Error())
					mu.Unlock()
					return
				}
				rd := bufio.NewReader(stdout)
				alive := true
				for alive && idx >= 0 {
					fmt.Fprintf(stdin, "%d\n", idx)
					doneCh := make(chan error, 1)
					go func() {
						_, err := rd.ReadString('\n')
						doneCh <- err
					}()
					select {
					case err := <-doneCh:
						if err != nil {
							alive = false
						}
					case <-time.After(caseTimeout):
						// watchdog: dump goroutines, inconclusive
						cmd.Process.Signal(syscall.SIGQUIT)
						select {
						case <-doneCh:
						case <-time.After(20 * time.Second):
							cmd.Process.Kill()
						}
						alive = false
						mu.Lock()
						inconclusive = append(inconclusive, fmt.Sprintf("watchdog fired on case index %d (dump in %s)", idx, errPath))
						mu.Unlock()
						idx = -2
					}
					if alive {
						idx = takeIdx()
					}
				}
				stdin.Close()
				cmd.Wait()
				errF.Close()
				if !alive && idx >= 0 {
					// died while running idx
					eb, _ := os.ReadFile(errPath)
					es := string(eb)
					kind, frame := crashFrame(es)
					caseID, note, ndetail := lastJournal(journal, idx)
					key := kind + "|" + frame
					if note != "" {
						key += "|" + note
					}
					tail := es
					if len(tail) > 3000 {
						tail = tail[:3000]
					}
					mu.Lock()
					deaths++
					crashes = append(crashes, foundViolation{Key: key, Case: caseID, Detail: "child process died (" + kind + ") in " + frame + " while running case " + caseID + " input " + ndetail + "\n" + tail})
					mu.Unlock()
				}
				if idx == -1 {
					return
				}
			}
		}(w)
	}
	wg.Wait()

	// aggregate journals
	obs := map[string]int64{}
	distinct := map[string]bool{}
	var samples []any
	var viols, early []foundViolation
	ran := 0
	files, _ := filepath.Glob(filepath.Join(work, "journal.*.jsonl"))
	sort.Strings(files)
	for _, f := range files {
		fh, err := os.Open(f)
		if err != nil {
			continue
		}
		sc := bufio.NewScanner(fh)
		sc.Buffer(make([]byte, 1<<24), 1<<24)
		for sc.Scan() {
			line := sc.Bytes()
			if strings.HasPrefix(string(line), `{"early_violation"`) || strings.HasPrefix(string(line), `{"case"`) && strings.Contains(string(line), `"early_violation"`) {
				var ev struct {
					Key    string `json:"early_violation"`
					Detail string `json:"detail"`
					Case   string `json:"case"`
				}
				if json.Unmarshal(line, &ev) == nil && ev.Key != "" {
					early = append(early, foundViolation{Key: ev.Key, Detail: ev.Detail, Case: ev.Case})
				}
				continue
			}
			if !strings.HasPrefix(string(line), `{"idx"`) {
				continue
			}
			var r Result
			if json.Unmarshal(line, &r) != nil {
				continue
			}
			ran++
			for k, v := range r.Obs {
				if strings.HasPrefix(k, "max:") {
					if v > obs[k] {
						obs[k] = v
					}
				} else {
					obs[k] += v
				}
			}
			for _, d := range r.Distinct {
				distinct[d] = true
			}
			if len(samples) < 6 {
				for _, s := range r.Samples {
					if len(samples) < 6 {
						samples = append(samples, s)
					}
				}
			}
			for _, v := range r.Violations {
				viols = append(viols, foundViolation{Key: v.Key, Detail: v.Detail, Case: r.Case})
			}
			for _, s := range r.Inconclusive {
				inconclusive = append(inconclusive, r.Case+": "+s)
			}
		}
		fh.Close()
	}
	viols = append(viols, crashes...)
	// verdicts written through by cases that never delivered their result record
	have := map[string]bool{}
	for _, v := range viols {
		have[v.Key] = true
	}
	for _, v := range early {
		if !have[v.Key] {
			have[v.Key] = true
			viols = append(viols, v)
		}
	}

	// race reports
	raceReports := 0
	if ck.Race {
		rv, n := collectRaces(work)
		raceReports = n
		viols = append(viols, rv...)
		obs["race_reports_total"] = int64(n)
	}

	// classify against known findings
	known := loadKnown()
	seenKnown := map[string]bool{}
	seenNew := map[string]bool{}
	newCount := 0
	os.MkdirAll(filepath.Join(outRoot(), "replays", id), 0o755)
	for _, v := range viols {
		matched := false
		for _, k := range known {
			if k.Property == id && k.Status == "known" && k.Key == v.Key {
				matched = true
				if !seenKnown[k.Key] {
					seenKnown[k.Key] = true
					fmt.Printf("KNOWN-FINDING: property=%s %s [%s]\n", id, k.What, k.Key)
				}
				break
			}
		}
		if matched {
			continue
		}
		if seenNew[v.Key] {
			continue
		}
		seenNew[v.Key] = true
		newCount++
		h := sha256.Sum256([]byte(v.Key))
		rp := filepath.Join(outRoot(), "replays", id, hex.EncodeToString(h[:6])+".json")
		rb, _ := json.MarshalIndent(map[string]any{"property": id, "key": v.Key, "case": v.Case, "seed": seed, "tier": tier, "detail": v.Detail}, "", " ")
		os.WriteFile(rp, rb, 0o644)
		d := v.Detail
		if i := strings.Index(d, "\n"); i > 0 {
			d = d[:i]
		}
		if len(d) > 400 {
			d = d[:400]
		}
		fmt.Printf("VIOLATION property=%s replay=%s key=%s :: %s\n", id, rp, v.Key, d)
	}
	for i, s := range inconclusive {
		if i < 20 {
			fmt.Printf("INCONCLUSIVE property=%s reason=%s\n", id, s)
		}
	}

	evals := int64(ran)
	if v, ok := obs["evaluations"]; ok && v > evals {
		evals = v
	}
	dkeys := make([]string, 0, len(distinct))
	for k := range distinct {
		dkeys = append(dkeys, k)
	}
	sort.Strings(dkeys)
	cov := map[string]any{
		"evaluations":         evals,
		"distinct_nontrivial": len(distinct),
		"rule":                ck.Rule,
		"samples":             samples,
		"cases_total":         total,
		"cases_completed":     ran,
		"child_deaths":        deaths,
		"inconclusive":        len(inconclusive),
		"observed":            obs,
		"known_findings_seen": len(seenKnown),
		"exhaustive":          obs["exhaustive_subruns_completed"] > 0 && obs["exhaustive_subruns_incomplete"] == 0,
	}
	if len(inconclusive) > 0 {
		k := len(inconclusive)
		if k > 20 {
			k = 20
		}
		cov["inconclusive_reasons"] = inconclusive[:k]
	}
	if ck.Race {
		cov["race_reports"] = raceReports
	}
	if len(dkeys) > 0 {
		n := len(dkeys)
		if n > 12 {
			n = 12
		}
		cov["distinct_examples"] = dkeys[:n]
	}
	if len(samples) == 0 {
		cov["samples"] = []any{"(no samples recorded)"}
	}
	ev := map[string]any{
		"property_id": id,
		"tier":        tier,
		"seed":        seed,
		"level":       ck.Level,
		"coverage":    cov,
		"assumptions": ck.Assumptions,
		"wall_s":      time.Since(start).Seconds(),
		"violations":  newCount,
	}
	eb, _ := json.MarshalIndent(ev, "", " ")
	os.MkdirAll(filepath.Join(outRoot(), "evidence"), 0o755)
	os.WriteFile(filepath.Join(outRoot(), "evidence", id+".json"), eb, 0o644)

	fmt.Printf("SUMMARY property=%s tier=%s seed=%d cases=%d/%d evaluations=%d distinct_nontrivial=%d new_violations=%d known=%d inconclusive=%d deaths=%d wall=%.1fs\n",
		id, tier, seed, ran, total, evals, len(distinct), newCount, len(seenKnown), len(inconclusive), deaths, time.Since(start).Seconds())
	if newCount > 0 {
		return 1
	}
	if len(distinct) < ck.MinDistinct || len(distinct) < 2 {
		fmt.Printf("INFRASTRUCTURE: observed too little (distinct_nontrivial=%d < %d)\n", len(distinct), ck.MinDistinct)
		return 2
	}
	os.RemoveAll(work)
	return 0
}

func childEnv(ck *Check, work string) []string {
	env := goEnv()
	if ck.Race {
		env = append(env, "GORACE=halt_on_error=0 log_path="+filepath.Join(work, "race"))
	}
	return env
}

// lastJournal returns the case id and last note for the unfinished case idx.
func lastJournal(path string, idx int) (caseID, note, detail string) {
	fh, err := os.Open(path)
	if err != nil {
		return "?", "", ""
	}
	defer fh.Close()
	sc := bufio.NewScanner(fh)
	sc.Buffer(make([]byte, 1<<24), 1<<24)
	in := false
	for sc.Scan() {
		l := sc.Text()
		if strings.HasPrefix(l, `{"begin":`) {
			var b struct {
				Begin int    `json:"begin"`
				Case  string `json:"case"`
			}
			json.Unmarshal([]byte(l), &b)
			in = b.Begin == idx
			if in {
				caseID, note, detail = b.Case, "", ""
			}
		} else if in && strings.HasPrefix(l, `{"detail"`) || in && strings.HasPrefix(l, `{"note"`) {
			var n struct {
				Note   string `json:"note"`
				Detail string `json:"detail"`
			}
			json.Unmarshal([]byte(l), &n)
			note, detail = n.Note, n.Detail
		}
	}
	return
}

var lineNo = regexp.MustCompile(`:\d+ \+0x[0-9a-f]+`)

// collectRaces parses race logs; a report counts when both of its first two
// stacks contain a repository frame; de-duplicated by the outermost repository
// entry points of those stacks.
func collectRaces(work string) ([]foundViolation, int) {
	files, _ := filepath.Glob(filepath.Join(work, "race.*"))
	var out []foundViolation
	seen := map[string]bool{}
	n := 0
	for _, f := range files {
		b, _ := os.ReadFile(f)
		reports := strings.Split(string(b), "WARNING: DATA RACE")
		for _, rep := range reports[1:] {
			n++
			blocks := strings.Split(rep, "\n\n")
			var tops []string
			for _, blk := range blocks {
				if len(tops) >= 2 {
					break
				}
				t := strings.TrimSpace(blk)
				if !(strings.HasPrefix(t, "Read at") || strings.HasPrefix(t, "Write at") || strings.HasPrefix(t, "Previous read") || strings.HasPrefix(t, "Previous write") || strings.HasPrefix(t, "Previous atomic") || strings.HasPrefix(t, "Atomic")) {
					continue
				}
				// innermost repository frame of this access
				fr := ""
				for _, l := range strings.Split(t, "\n") {
					l = strings.TrimSpace(l)
					if strings.HasPrefix(l, "github.com/taurusgroup/multi-party-sig/") && !strings.Contains(l, "/verif/") {
						if j := strings.LastIndex(l, "("); j > 0 {
							l = l[:j]
						}
						fr = strings.TrimPrefix(l, "github.com/taurusgroup/multi-party-sig/")
						break
					}
				}
				tops = append(tops, fr)
			}
			if len(tops) < 2 || tops[0] == "" || tops[1] == "" {
				continue // not both in repository code
			}
			sort.Strings(tops)
			key := "race|" + tops[0] + "|" + tops[1]
			if seen[key] {
				continue
			}
			seen[key] = true
			d := rep
			if len(d) > 2500 {
				d = d[:2500]
			}
			out = append(out, foundViolation{Key: key, Case: "race-log:" + filepath.Base(f), Detail: "data race between " + tops[0] + " and " + tops[1] + "\n" + d})
		}
	}
	return out, n
}
