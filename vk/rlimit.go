package vk

import "syscall"

func setMemLimit(b uint64) {
	lim := syscall.Rlimit{Cur: b, Max: b}
	_ = syscall.Setrlimit(syscall.RLIMIT_AS, &lim)
}
