// Package ref holds independent reference implementations (math/big only) used
// as oracles.  It shares no code with the library under test, dcrd or saferith.
package ref

import (
	"crypto/hmac"
	"crypto/sha256"
	"crypto/sha512"
	"encoding/binary"
	"errors"
	"math/big"
)

var (
	P, _  = new(big.Int).SetString("FFFFFFFFFFFFFFFFFFFFFFFFFFFFFFFFFFFFFFFFFFFFFFFFFFFFFFFEFFFFFC2F", 16)
	Q, _  = new(big.Int).SetString("FFFFFFFFFFFFFFFFFFFFFFFFFFFFFFFEBAAEDCE6AF48A03BBFD25E8CD0364141", 16)
	Gx, _ = new(big.Int).SetString("79BE667EF9DCBBAC55A06295CE870B07029BFCDB2DCE28D959F2815B16F81798", 16)
	Gy, _ = new(big.Int).SetString("483ADA7726A3C4655DA4FBFC0E1108A8FD17B448A68554199C47D08FFB10D4B8", 16)
	seven = big.NewInt(7)
	three = big.NewInt(3)
	two   = big.NewInt(2)
)

// Pt is an affine point; Inf marks the point at infinity.
type Pt struct {
	X, Y *big.Int
	Inf  bool
}

func G() Pt        { return Pt{X: new(big.Int).Set(Gx), Y: new(big.Int).Set(Gy)} }
func Infinity() Pt { return Pt{Inf: true} }

func (a Pt) Equal(b Pt) bool {
	if a.Inf || b.Inf {
		return a.Inf == b.Inf
	}
	return a.X.Cmp(b.X) == 0 && a.Y.Cmp(b.Y) == 0
}

func (a Pt) OnCurve() bool {
	if a.Inf {
		return true
	}
	if a.X.Sign() < 0 || a.X.Cmp(P) >= 0 || a.Y.Sign() < 0 || a.Y.Cmp(P) >= 0 {
		return false
	}
	l := new(big.Int).Mul(a.Y, a.Y)
	l.Mod(l, P)
	r := new(big.Int).Mul(a.X, a.X)
	r.Mul(r, a.X)
	r.Add(r, seven)
	r.Mod(r, P)
	return l.Cmp(r) == 0
}

func (a Pt) Neg() Pt {
	if a.Inf {
		return a
	}
	y := new(big.Int).Sub(P, a.Y)
	y.Mod(y, P)
	return Pt{X: new(big.Int).Set(a.X), Y: y}
}

func Add(a, b Pt) Pt {
	if a.Inf {
		return b
	}
	if b.Inf {
		return a
	}
	var lam *big.Int
	if a.X.Cmp(b.X) == 0 {
		s := new(big.Int).Add(a.Y, b.Y)
		s.Mod(s, P)
		if s.Sign() == 0 {
			return Infinity()
		}
		// doubling
		num := new(big.Int).Mul(a.X, a.X)
		num.Mul(num, three)
		den := new(big.Int).Mul(a.Y, two)
		den.ModInverse(den, P)
		lam = num.Mul(num, den)
	} else {
		num := new(big.Int).Sub(b.Y, a.Y)
		den := new(big.Int).Sub(b.X, a.X)
		den.Mod(den, P)
		den.ModInverse(den, P)
		lam = num.Mul(num, den)
	}
	lam.Mod(lam, P)
	x := new(big.Int).Mul(lam, lam)
	x.Sub(x, a.X)
	x.Sub(x, b.X)
	x.Mod(x, P)
	y := new(big.Int).Sub(a.X, x)
	y.Mul(y, lam)
	y.Sub(y, a.Y)
	y.Mod(y, P)
	return Pt{X: x, Y: y}
}

// Mul computes k*a (k reduced mod q first; k may be negative).
func Mul(k *big.Int, a Pt) Pt {
	kk := new(big.Int).Mod(k, Q)
	r := Infinity()
	for i := kk.BitLen() - 1; i >= 0; i-- {
		r = Add(r, r)
		if kk.Bit(i) == 1 {
			r = Add(r, a)
		}
	}
	return r
}

func MulG(k *big.Int) Pt { return Mul(k, G()) }

// sqrtP returns y with y^2 = v mod p, or nil.
func sqrtP(v *big.Int) *big.Int {
	e := new(big.Int).Add(P, big.NewInt(1))
	e.Rsh(e, 2)
	y := new(big.Int).Exp(v, e, P)
	c := new(big.Int).Mul(y, y)
	c.Mod(c, P)
	if c.Cmp(new(big.Int).Mod(v, P)) != 0 {
		return nil
	}
	return y
}

// LiftX returns the even-Y point with the given x (BIP-340 lift_x).
func LiftX(x *big.Int) (Pt, error) {
	if x.Sign() < 0 || x.Cmp(P) >= 0 {
		return Pt{}, errors.New("x out of range")
	}
	v := new(big.Int).Mul(x, x)
	v.Mul(v, x)
	v.Add(v, seven)
	v.Mod(v, P)
	y := sqrtP(v)
	if y == nil {
		return Pt{}, errors.New("not on curve")
	}
	if y.Bit(0) == 1 {
		y.Sub(P, y)
	}
	return Pt{X: new(big.Int).Set(x), Y: y}, nil
}

// Decompress parses a 33-byte SEC1 compressed point (prefix 2 or 3 only).
func Decompress(b []byte) (Pt, error) {
	if len(b) != 33 || (b[0] != 2 && b[0] != 3) {
		return Pt{}, errors.New("bad compressed point")
	}
	p, err := LiftX(new(big.Int).SetBytes(b[1:]))
	if err != nil {
		return Pt{}, err
	}
	if b[0] == 3 {
		p = p.Neg()
	}
	return p, nil
}

func (a Pt) Compress() []byte {
	out := make([]byte, 33)
	if a.Inf {
		return out
	}
	out[0] = 2 + byte(a.Y.Bit(0))
	a.X.FillBytes(out[1:])
	return out
}

func (a Pt) XBytes() []byte {
	out := make([]byte, 32)
	if !a.Inf {
		a.X.FillBytes(out)
	}
	return out
}

// Bits2Int is the ECDSA hash-to-integer conversion for a 256-bit order.
func Bits2Int(h []byte) *big.Int {
	if len(h) > 32 {
		h = h[:32]
	}
	return new(big.Int).SetBytes(h)
}

// ECDSAVerifyPoint checks s*R == e*G + r*X with r = R.x mod q, 0<r,s<q.
func ECDSAVerifyPoint(X Pt, digest []byte, R Pt, s *big.Int) bool {
	if X.Inf || R.Inf || !X.OnCurve() || !R.OnCurve() {
		return false
	}
	r := new(big.Int).Mod(R.X, Q)
	if r.Sign() == 0 || s.Sign() <= 0 || s.Cmp(Q) >= 0 {
		return false
	}
	e := Bits2Int(digest)
	lhs := Mul(s, R)
	rhs := Add(MulG(e), Mul(r, X))
	return lhs.Equal(rhs)
}

// ECDSAVerify is the textbook (r,s) verification.
func ECDSAVerify(X Pt, digest []byte, r, s *big.Int) bool {
	if X.Inf || !X.OnCurve() {
		return false
	}
	if r.Sign() <= 0 || r.Cmp(Q) >= 0 || s.Sign() <= 0 || s.Cmp(Q) >= 0 {
		return false
	}
	e := Bits2Int(digest)
	w := new(big.Int).ModInverse(s, Q)
	u1 := new(big.Int).Mul(e, w)
	u1.Mod(u1, Q)
	u2 := new(big.Int).Mul(r, w)
	u2.Mod(u2, Q)
	pt := Add(MulG(u1), Mul(u2, X))
	if pt.Inf {
		return false
	}
	return new(big.Int).Mod(pt.X, Q).Cmp(r) == 0
}

// ECDSASign signs deterministically with nonce k (caller-chosen); returns R, s.
func ECDSASign(d *big.Int, digest []byte, k *big.Int) (Pt, *big.Int) {
	R := MulG(k)
	r := new(big.Int).Mod(R.X, Q)
	e := Bits2Int(digest)
	s := new(big.Int).Mul(r, d)
	s.Add(s, e)
	s.Mul(s, new(big.Int).ModInverse(new(big.Int).Mod(k, Q), Q))
	s.Mod(s, Q)
	return R, s
}

// ECRecover recovers the public key from an Ethereum-style r||s||v signature.
func ECRecover(digest []byte, sig65 []byte) (Pt, error) {
	if len(sig65) != 65 {
		return Pt{}, errors.New("len")
	}
	r := new(big.Int).SetBytes(sig65[:32])
	s := new(big.Int).SetBytes(sig65[32:64])
	v := sig65[64]
	if v > 1 {
		return Pt{}, errors.New("v")
	}
	if r.Sign() == 0 || r.Cmp(Q) >= 0 || s.Sign() == 0 || s.Cmp(Q) >= 0 {
		return Pt{}, errors.New("range")
	}
	R, err := LiftX(r)
	if err != nil {
		return Pt{}, err
	}
	if v == 1 {
		R = R.Neg()
	}
	e := Bits2Int(digest)
	rinv := new(big.Int).ModInverse(r, Q)
	// X = r^-1 (s R - e G)
	t := Add(Mul(s, R), MulG(e).Neg())
	return Mul(rinv, t), nil
}

func TaggedHash(tag string, parts ...[]byte) []byte {
	t := sha256.Sum256([]byte(tag))
	h := sha256.New()
	h.Write(t[:])
	h.Write(t[:])
	for _, p := range parts {
		h.Write(p)
	}
	return h.Sum(nil)
}

// BIP340Verify implements the BIP-340 verification algorithm.
func BIP340Verify(pk []byte, msg []byte, sig []byte) bool {
	if len(pk) != 32 || len(sig) != 64 {
		return false
	}
	Pp, err := LiftX(new(big.Int).SetBytes(pk))
	if err != nil {
		return false
	}
	r := new(big.Int).SetBytes(sig[:32])
	s := new(big.Int).SetBytes(sig[32:])
	if r.Cmp(P) >= 0 || s.Cmp(Q) >= 0 {
		return false
	}
	e := new(big.Int).SetBytes(TaggedHash("BIP0340/challenge", sig[:32], pk, msg))
	e.Mod(e, Q)
	R := Add(MulG(s), Mul(e, Pp).Neg())
	if R.Inf || R.Y.Bit(0) == 1 || R.X.Cmp(r) != 0 {
		return false
	}
	return true
}

// BIP340Sign implements the BIP-340 default signing algorithm.
func BIP340Sign(sk []byte, msg []byte, aux []byte) ([]byte, error) {
	d0 := new(big.Int).SetBytes(sk)
	if len(sk) != 32 || d0.Sign() == 0 || d0.Cmp(Q) >= 0 {
		return nil, errors.New("bad key")
	}
	Pp := MulG(d0)
	d := d0
	if Pp.Y.Bit(0) == 1 {
		d = new(big.Int).Sub(Q, d0)
	}
	db := make([]byte, 32)
	d.FillBytes(db)
	ah := TaggedHash("BIP0340/aux", aux)
	t := make([]byte, 32)
	for i := range t {
		t[i] = db[i] ^ ah[i]
	}
	px := Pp.XBytes()
	k0 := new(big.Int).SetBytes(TaggedHash("BIP0340/nonce", t, px, msg))
	k0.Mod(k0, Q)
	if k0.Sign() == 0 {
		return nil, errors.New("zero nonce")
	}
	R := MulG(k0)
	k := k0
	if R.Y.Bit(0) == 1 {
		k = new(big.Int).Sub(Q, k0)
	}
	rx := R.XBytes()
	e := new(big.Int).SetBytes(TaggedHash("BIP0340/challenge", rx, px, msg))
	e.Mod(e, Q)
	s := new(big.Int).Mul(e, d)
	s.Add(s, k)
	s.Mod(s, Q)
	out := make([]byte, 64)
	copy(out, rx)
	s.FillBytes(out[32:])
	return out, nil
}

// CKDpub is BIP-32 public parent -> public child derivation (non-hardened).
// Returns child point, child chain code, and the tweak I_L.
func CKDpub(parent Pt, chain []byte, i uint32) (Pt, []byte, *big.Int, error) {
	if i >= 1<<31 {
		return Pt{}, nil, nil, errors.New("hardened")
	}
	m := hmac.New(sha512.New, chain)
	m.Write(parent.Compress())
	var ib [4]byte
	binary.BigEndian.PutUint32(ib[:], i)
	m.Write(ib[:])
	I := m.Sum(nil)
	il := new(big.Int).SetBytes(I[:32])
	if il.Cmp(Q) >= 0 {
		return Pt{}, nil, nil, errors.New("IL >= n")
	}
	child := Add(MulG(il), parent)
	if child.Inf {
		return Pt{}, nil, nil, errors.New("infinity")
	}
	return child, I[32:], il, nil
}

// IDScalar maps a party identifier to its scalar image: int(bytes) mod q.
func IDScalar(id string) *big.Int {
	x := new(big.Int).SetBytes([]byte(id))
	return x.Mod(x, Q)
}

// LagrangeAt0 returns the coefficients l_j(0) mod q for the given x values.
func LagrangeAt0(xs []*big.Int) []*big.Int {
	out := make([]*big.Int, len(xs))
	for j := range xs {
		num := big.NewInt(1)
		den := big.NewInt(1)
		for l := range xs {
			if l == j {
				continue
			}
			num.Mul(num, xs[l])
			num.Mod(num, Q)
			d := new(big.Int).Sub(xs[l], xs[j])
			d.Mod(d, Q)
			den.Mul(den, d)
			den.Mod(den, Q)
		}
		den.ModInverse(den, Q)
		out[j] = num.Mul(num, den)
		out[j].Mod(out[j], Q)
	}
	return out
}

// InterpolateSecret returns sum l_j(0) * y_j mod q.
func InterpolateSecret(xs, ys []*big.Int) *big.Int {
	ls := LagrangeAt0(xs)
	s := new(big.Int)
	for j := range xs {
		s.Add(s, new(big.Int).Mul(ls[j], ys[j]))
	}
	return s.Mod(s, Q)
}

// InterpolatePoint returns sum l_j(0) * Y_j.
func InterpolatePoint(xs []*big.Int, ys []Pt) Pt {
	ls := LagrangeAt0(xs)
	r := Infinity()
	for j := range xs {
		r = Add(r, Mul(ls[j], ys[j]))
	}
	return r
}
