package ref

import (
	"encoding/hex"
	"math/big"
	"testing"
)

func h(s string) []byte { b, _ := hex.DecodeString(s); return b }

func TestKAT(t *testing.T) {
	if err := SelfTest(); err != nil {
		t.Fatal(err)
	}
	_ = big.NewInt
}
