package ref

import (
	"errors"
	"math/big"
)

// Paillier is a textbook big-integer Paillier with g = 1+N.
type Paillier struct {
	N, N2, P, Qp, Phi, PhiInv *big.Int
}

func NewPaillier(p, q *big.Int) *Paillier {
	n := new(big.Int).Mul(p, q)
	phi := new(big.Int).Mul(new(big.Int).Sub(p, big.NewInt(1)), new(big.Int).Sub(q, big.NewInt(1)))
	return &Paillier{N: n, N2: new(big.Int).Mul(n, n), P: p, Qp: q, Phi: phi, PhiInv: new(big.Int).ModInverse(phi, n)}
}

func (k *Paillier) Half() *big.Int {
	h := new(big.Int).Sub(k.N, big.NewInt(1))
	return h.Rsh(h, 1)
}

func (k *Paillier) InRange(m *big.Int) bool {
	return new(big.Int).Abs(m).Cmp(k.Half()) <= 0
}

// Enc = (1+N)^m * nonce^N mod N^2 (m may be negative).
func (k *Paillier) Enc(m, nonce *big.Int) (*big.Int, error) {
	if !k.InRange(m) {
		return nil, errors.New("out of range")
	}
	mm := new(big.Int).Mod(m, k.N)
	g := new(big.Int).Mul(mm, k.N)
	g.Add(g, big.NewInt(1))
	g.Mod(g, k.N2)
	r := new(big.Int).Exp(nonce, k.N, k.N2)
	g.Mul(g, r)
	return g.Mod(g, k.N2), nil
}

func (k *Paillier) ValidCiphertext(c *big.Int) bool {
	if c.Sign() <= 0 || c.Cmp(k.N2) >= 0 {
		return false
	}
	return new(big.Int).GCD(nil, nil, c, k.N).Cmp(big.NewInt(1)) == 0
}

func (k *Paillier) Dec(c *big.Int) (*big.Int, error) {
	if !k.ValidCiphertext(c) {
		return nil, errors.New("invalid ciphertext")
	}
	r := new(big.Int).Exp(c, k.Phi, k.N2)
	r.Sub(r, big.NewInt(1))
	r.Div(r, k.N)
	r.Mul(r, k.PhiInv)
	r.Mod(r, k.N)
	if r.Cmp(k.Half()) > 0 {
		r.Sub(r, k.N)
	}
	return r, nil
}

func (k *Paillier) Add(a, b *big.Int) *big.Int {
	r := new(big.Int).Mul(a, b)
	return r.Mod(r, k.N2)
}

func (k *Paillier) MulConst(a, s *big.Int) *big.Int {
	if s.Sign() >= 0 {
		return new(big.Int).Exp(a, s, k.N2)
	}
	inv := new(big.Int).ModInverse(a, k.N2)
	return new(big.Int).Exp(inv, new(big.Int).Neg(s), k.N2)
}
