package ref

import (
	"bytes"
	"encoding/hex"
	"fmt"
	"math/big"
)

func hx(s string) []byte { b, _ := hex.DecodeString(s); return b }

// SelfTest cross-checks the references against embedded known-answer vectors.
func SelfTest() error {
	// 2G, 3G
	g2 := MulG(big.NewInt(2))
	if hex.EncodeToString(g2.XBytes()) != "c6047f9441ed7d6d3045406e95c07cd85c778e4b8cef3ca7abac09b95c709ee5" {
		return fmt.Errorf("2G wrong")
	}
	g3 := Add(g2, G())
	if hex.EncodeToString(g3.XBytes()) != "f9308a019258c31049344f85f89d5229b531c845836f99b08601f113bce036f9" {
		return fmt.Errorf("3G wrong")
	}
	if !MulG(Q).Inf || !g3.OnCurve() {
		return fmt.Errorf("qG != inf")
	}
	// BIP-340 vector 0 and 1
	type v struct{ sk, pk, aux, msg, sig string }
	vs := []v{
		{"0000000000000000000000000000000000000000000000000000000000000003", "F9308A019258C31049344F85F89D5229B531C845836F99B08601F113BCE036F9", "0000000000000000000000000000000000000000000000000000000000000000", "0000000000000000000000000000000000000000000000000000000000000000", "E907831F80848D1069A5371B402410364BDF1C5F8307B0084C55F1CE2DCA821525F66A4A85EA8B71E482A74F382D2CE5EBEEE8FDB2172F477DF4900D310536C0"},
		{"B7E151628AED2A6ABF7158809CF4F3C762E7160F38B4DA56A784D9045190CFEF", "DFF1D77F2A671C5F36183726DB2341BE58FEAE1DA2DECED843240F7B502BA659", "0000000000000000000000000000000000000000000000000000000000000001", "243F6A8885A308D313198A2E03707344A4093822299F31D0082EFA98EC4E6C89", "6896BD60EEAE296DB48A229FF71DFE071BDE413E6D43F917DC8DCF8C78DE33418906D11AC976ABCCB20B091292BFF4EA897EFCB639EA871CFA95F6DE339E4B0A"},
	}
	for i, x := range vs {
		sig, err := BIP340Sign(hx(x.sk), hx(x.msg), hx(x.aux))
		if err != nil || !bytes.Equal(sig, hx(x.sig)) {
			return fmt.Errorf("bip340 sign vector %d: %x", i, sig)
		}
		if !BIP340Verify(hx(x.pk), hx(x.msg), hx(x.sig)) {
			return fmt.Errorf("bip340 verify vector %d", i)
		}
		bad := hx(x.sig)
		bad[40] ^= 1
		if BIP340Verify(hx(x.pk), hx(x.msg), bad) {
			return fmt.Errorf("bip340 verify accepted bad %d", i)
		}
	}
	// BIP-32 test vector 1: master pub -> we cannot do hardened; use chain m/0H -> m/0H/1
	// parent: xpub at m/0H
	parent, err := Decompress(hx("035a784662a4a20a65bf6aab9ae98a6c068a81c52e4b032c0fb5400c706cfccc56"))
	if err != nil {
		return err
	}
	cc := hx("47fdacbd0f1097043b78c63c20c34ef4ed9a111d980047ad16282c7ae6236141")
	child, ccc, _, err := CKDpub(parent, cc, 1)
	if err != nil {
		return err
	}
	if hex.EncodeToString(child.Compress()) != "03501e454bf00751f24b1b489aa925215d66af2234e3891c3b21a52bedb3cd711c" ||
		hex.EncodeToString(ccc) != "2a7857631386ba23dacac34180dd1983734e444fdbf774041578e9b6adb37c19" {
		return fmt.Errorf("bip32 vector: %x %x", child.Compress(), ccc)
	}
	// ECDSA sign/verify/recover round trip
	d := big.NewInt(0xdeadbeef)
	X := MulG(d)
	dig := hx("243F6A8885A308D313198A2E03707344A4093822299F31D0082EFA98EC4E6C89")
	R, s := ECDSASign(d, dig, big.NewInt(123456789))
	r := new(big.Int).Mod(R.X, Q)
	if !ECDSAVerify(X, dig, r, s) || !ECDSAVerifyPoint(X, dig, R, s) {
		return fmt.Errorf("ecdsa self")
	}
	if ECDSAVerify(X, dig, r, new(big.Int).Add(s, big.NewInt(1))) {
		return fmt.Errorf("ecdsa accepted bad")
	}
	sig := make([]byte, 65)
	r.FillBytes(sig[:32])
	s.FillBytes(sig[32:64])
	sig[64] = byte(R.Y.Bit(0))
	rec, err := ECRecover(dig, sig)
	if err != nil || !rec.Equal(X) {
		return fmt.Errorf("ecrecover")
	}
	// Lagrange
	xs := []*big.Int{big.NewInt(1), big.NewInt(5), big.NewInt(9)}
	f := func(x *big.Int) *big.Int { // 7 + 3x + 2x^2
		r := new(big.Int).Mul(x, x)
		r.Mul(r, big.NewInt(2))
		r.Add(r, new(big.Int).Mul(x, big.NewInt(3)))
		r.Add(r, big.NewInt(7))
		return r.Mod(r, Q)
	}
	ys := []*big.Int{f(xs[0]), f(xs[1]), f(xs[2])}
	if InterpolateSecret(xs, ys).Cmp(big.NewInt(7)) != 0 {
		return fmt.Errorf("lagrange")
	}
	// Paillier with small primes
	pk := NewPaillier(big.NewInt(1000003), big.NewInt(1000033))
	for _, m := range []int64{0, 1, -1, 12345, -99999} {
		c, err := pk.Enc(big.NewInt(m), big.NewInt(777))
		if err != nil {
			return err
		}
		mm, err := pk.Dec(c)
		if err != nil || mm.Int64() != m {
			return fmt.Errorf("paillier %d -> %v", m, mm)
		}
	}
	return nil
}
