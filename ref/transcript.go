package ref

import (
	"encoding/binary"
	"io"
	"math/big"

	"github.com/zeebo/blake3"
)

// Item is an abstract transcript item: a domain tag and a body.
type Item struct {
	Domain string
	Body   []byte
}

// Canon is the independent canonical encoding of an item sequence: it is
// injective by construction (every variable-length part is length-prefixed).
func Canon(items []Item) []byte {
	var out []byte
	var n [8]byte
	for _, it := range items {
		binary.BigEndian.PutUint64(n[:], uint64(len(it.Domain)))
		out = append(out, n[:]...)
		out = append(out, it.Domain...)
		binary.BigEndian.PutUint64(n[:], uint64(len(it.Body)))
		out = append(out, n[:]...)
		out = append(out, it.Body...)
	}
	return out
}

// Transcript is an independent re-implementation of the library's framing over
// blake3: prefix "CMP-BLAKE", then for each item "(" len(domain) domain
// len(body) body ")" with 8-byte big-endian lengths.
type Transcript struct{ h *blake3.Hasher }

func NewTranscript() *Transcript {
	t := &Transcript{h: blake3.New()}
	t.h.Write([]byte("CMP-BLAKE"))
	return t
}

func (t *Transcript) Write(items ...Item) *Transcript {
	var n [8]byte
	for _, it := range items {
		t.h.Write([]byte("("))
		binary.BigEndian.PutUint64(n[:], uint64(len(it.Domain)))
		t.h.Write(n[:])
		t.h.Write([]byte(it.Domain))
		binary.BigEndian.PutUint64(n[:], uint64(len(it.Body)))
		t.h.Write(n[:])
		t.h.Write(it.Body)
		t.h.Write([]byte(")"))
	}
	return t
}

func (t *Transcript) Sum64() []byte {
	out := make([]byte, 64)
	io.ReadFull(t.h.Digest(), out)
	return out
}

// ScalarFromDigest reads 32 bytes from the XOF and reduces mod q.
func (t *Transcript) Scalar() *big.Int {
	out := make([]byte, 32)
	io.ReadFull(t.h.Digest(), out)
	x := new(big.Int).SetBytes(out)
	return x.Mod(x, Q)
}

// FrostChallenge recomputes the (non-Taproot) FROST challenge
// H(R, Y, m) with the library's item domains.
func FrostChallenge(R, Y Pt, msg []byte) *big.Int {
	t := NewTranscript()
	t.Write(Item{"*curve.Secp256k1Point", R.Compress()}, Item{"*curve.Secp256k1Point", Y.Compress()}, Item{"messageHash", msg})
	return t.Scalar()
}

// SchnorrVerify checks z*G == R + c*Y.
func SchnorrVerify(Y, R Pt, z, c *big.Int) bool {
	if Y.Inf || !Y.OnCurve() || !R.OnCurve() {
		return false
	}
	return MulG(z).Equal(Add(R, Mul(c, Y)))
}
